#!/usr/bin/env python3
"""Generates /verif/MANIFEST.json (kept in a script so the 19 entries stay consistent)."""
import json, os

ROOT = os.path.dirname(os.path.dirname(os.path.abspath(__file__)))

MC = "model_checking"
FE = "fault_enumeration"
EX = "exploration"

TRUST = ("Trusted base: the file-format encoder and reference interpreter in mc-core (written from the Aseprite file "
         "specification; self-test: all 44 corpus files re-encode byte-exactly and 43 agree with the library on the whole API), "
         "rustc/std/image/flate2, and that the enumerated bounds stated in the evidence file are the bound of the claim.")
BLEND = (" Reference blend functions: C++ transcription of Aseprite's blend_funcs.cpp (parts verbatim from ref/dummy.cc), "
         "-ffp-contract=off; self-test: 39 GUI-rendered corpus images reproduced pixel for pixel.")

checks = [
 ("C01", MC, "bounded-exhaustive input-space exploration vs executable reference model",
  "Every field of a maximally varied default sprite swept over its whole domain (all 8/16-bit values, B32 boundary basis for 32-bit fields, a name alphabet incl. empty/255/256/65535-byte/multi-byte UTF-8), radius-2 (thorough 3) Hamming balls for interactions, entity-count ladders up to the format maxima, every permutation of the order-insensitive chunk groups, all duplicate-name placements, every distribution of the movable chunk groups over three frames; the canvas sweeps also observe tilemap attributes and lookups; each instance is encoded, loaded by the real library, observed through every public structure accessor and compared with the reference interpreter's prediction.", "§3 C01", TRUST),
 ("C02", MC, "bounded-exhaustive exploration of layer stacks vs reference compositor",
  "All layer stacks of 1-4 layers within Hamming distance 3/3/3/2 (thorough 4/4/4/3) of the default over blend mode, both opacities, visibility, kind (image / child of visible or hidden group / tilemap), cel shape (full, absent, linked, 1x1, 2x3, 5x4) and offsets incl. the i16 extremes; every small cel size at every offset around the canvas; all 65,536 opacity pairs; all n! cel-chunk orders; all link source/target pairs with the link chunk's own fields varied; nested groups (every forest of up to 5 layers) with blended overlapping cels; portrait, narrow and >256-pixel canvases; layer flag words and the header flag word varied. Frame and cel images compared bit for bit with a bottom-to-top compositor built on the reference blend functions.", "§3 C02", TRUST + BLEND),
 ("C03", MC, "exhaustive grid enumeration of blend inputs vs C++ reference (bit-for-bit)",
  "Quick: for all 19 modes, all 65,536 (backdrop channel, source channel) pairs in each colour slot x 654 alpha pairs (A12^2 + both full axes), the 546-pair opacity sweep, the tie lattice, an 8-level RGB lattice, the tilemap rendering route and source layers with other flag bits (8.6e8 pixel points). Thorough: the COMPLETE (Bc,Sc,Ba,Sa) = 2^32 space for the 15 separable modes, all 256 layer opacities x the channel grid for all modes, the 16-level HSL lattice, full-range HSL axes and all 65,536 opacity pairs. Every pixel rendered through the public API and compared bit for bit with Aseprite's blend functions.", "§3 C03", TRUST + BLEND),
 ("C04", FE, "exhaustive fault/corruption enumeration in isolated worker processes",
  "Every single-byte substitution (all 256 values at every offset) of three base files, every recorded field set to every boundary value, all pairs of structural fields, ~3,300 re-encoded semantic inconsistencies, program-level faults (every chunk deleted / duplicated / swapped / moved / retyped, frames dropped or duplicated), every strict prefix, every byte string of length <= 2 and constant fills, and scale inputs up to 8 MiB (65535 frames / layers / nesting levels / tags, 10^6 chunks); each loaded on a 2 MiB thread in a worker process with catch_unwind, a counting allocator and a wall-clock cap, in the `checked` profile (overflow checks + debug assertions, optimised) and in `unopt` (same, unoptimised), the small families also through `read_file` on a temporary file; bases are four small sprites, the indexed default sprite and a 400 KB sprite whose chunks all exceed 64 KiB; thorough adds `plain`, corpus files and all-field pairs. Verdict per input: sprite or error value; panic, abort (signal), over-budget allocation or timeout is a violation.", "§3 C04", TRUST),
 ("C05", FE, "exhaustive fault/corruption enumeration + whole-API walk in isolated worker processes",
  "The C04 input set; every input that loads is walked through every public accessor (all frame, cel, tilemap, tile and tileset images, tile lookups incl. 2^31-1, 2^31, 2^32-1, layers/parents/visibility, tags, slices, user data, Debug) on a 2 MiB thread in a worker process; any panic, abort, timeout, route disagreement or image with other than the documented dimensions is a violation.", "§3 C05", TRUST),
 ("C06", MC, "bounded-exhaustive exploration of pixel decoding vs reference model",
  "Every byte value in every RGBA channel slot, all 65,536 grayscale (value, alpha) pairs, all 256 indices against a full palette for every transparent index 0..255 on background and non-background layers, sparse palettes, raw and compressed storage, opacity pairs, offsets, all 19 blend modes (the cel image must not depend on it), every subset of present cells, every link source/target pair (with the link's own offset/opacity varied), every small cel at every offset on landscape, portrait and large canvases; cel images, emptiness, offsets compared with the statement's formula.", "§3 C06", TRUST),
 ("C07", MC, "bounded-exhaustive exploration of encoding-choice vectors, differential oracle",
  "For six base sprites, all vectors within Hamming distance 1-2 (thorough 2-3) of the canonical encoding over every choice point of the file (cel storage raw/zlib 0-9, count-field style per frame, an ignorable chunk at every chunk boundary, trailing bytes per chunk, bytes after the last frame, every unused header/layer field, zero pixel-ratio components, a redundant legacy palette, every cel-chunk order), plus uniform vectors, the full 512-value pixel-ratio sweep and frames of 65534-70000 chunks under every count style; single deviations and size-field / tail variants are also loaded through `read_file`; whole-API observation must equal the canonical file's and the reference prediction.", "§3 C07", TRUST),
 ("C08", MC, "exhaustive product enumeration of tilemap configurations vs reference model and direct oracle",
  "Full product of pixel format x tile size x tile count x canvas size (exact and inexact division) x stored map size x tile offset in {-3..3}^2 x tile-word pattern (incl. flip/rotate bits under the id mask) x opacity pair: 2.57 million sprites (thorough 9 million + an i32-overflow extreme); lookups at every coordinate in and beyond the logical area and at 2^31-1, 2^31, 2^32-1; canvas and tile extents over the 16-bit range for the size in tiles; tilesets of up to 1000 tiles; one tileset shared by cels of different opacity. Checked against the reference model and, literally as stated, on the library's own outputs (image pixel == pixel of the tile the lookup reports).", "§3 C08", TRUST),
 ("C09", MC, "exhaustive enumeration of layer forests and visibility assignments vs reference model",
  "All 2,055 forest level sequences of up to 8 layers x all 2^n visible-flag assignments (431,058 sprites; thorough up to 10 layers, 31 million) with one opaque pixel per leaf, every subset of leaves holding a cel (forests up to 6 layers), groups of up to 1000 children, sprites with more than 65,536 layers, and single chains of depth up to 65,535 loaded and walked on a 2 MiB thread in worker processes; parent(), is_visible() and frame images compared with the model.", "§3 C09", TRUST),
 ("C10", MC, "explicit-state exploration of the user-data attachment automaton, every model trace replayed on the implementation",
  "Breadth of every enabled event history up to length 6 over 10 symbols and length 5 over 13 symbols (thorough: 8 and 7) built from layer, cel (linked in later frames), slice, tags(2), both legacy palettes, new palette, ignorable, next-frame and user-data (4 payload shapes) events; histories are not merged; each is encoded as a real multi-frame file, loaded, and every entity's user data compared with the model automaton.", "§3 C10", TRUST),
 ("C11", MC, "bounded-exhaustive exploration of palette chunks and pixel buffers vs reference model",
  "New-format palettes over a (first, length) grid x entry flags (B16) x names; every legacy packet list of <= 3 packets over skip/count alphabets (4,369 lists per chunk kind) with cumulative offsets; every 6-bit component value; new-vs-legacy precedence in both orders within a frame and across frames; indexed sprites with palettes reaching past index 255; every palette subset of {0..7} x every pixel buffer of length <= 3 over {0..8} x carrier {raw cel, compressed cel, tileset} (load fails iff an index is missing); every single index against its complement palette.", "§3 C11", TRUST),
 ("C12", FE, "exhaustive fault enumeration with measured heap (counting allocator, hard budget = the property's bound)",
  "Every size/count/index/string-length field of four base files set to every larger boundary value up to the type maximum, all pairs of such fields at {max, max/2+1, 4096}, deflate bombs of 1-64 MiB (thorough 512 MiB) behind tiny and honest declared sizes, the frames x layers cel-table family up to 4000 x 4000 (thorough 12000 x 12000 and 65535 x 1000), well-formed files with up to 1000 (thorough 65,534) linked cels pointing at one large compressible cel, and the C04 corruption families; peak live heap between entry to and return from AsepriteFile::read measured by a process-wide counting allocator in a worker process whose hard budget is 64 MiB + 8192 bytes per input byte.", "§3 C12", TRUST),
 ("C13", FE, "exhaustive crash-point enumeration (every cut offset)",
  "Every strict prefix bytes[..k] for every k below the end of the last frame of 60+ files (four bases, the default sprite in three formats, one file per chunk kind with that chunk last, a file with trailing bytes / both count styles / a tail, all corpus files up to 8 KB, files whose last or middle frames have no chunks, a 400 KB file with cuts near every chunk / 4 KiB boundary; thorough adds every offset of that file and a 525 KB corpus file at every offset): load must return an error, never a sprite, never panic.", "§3 C13", TRUST),
 ("C14", MC, "deviation-bounded exploration of the reader environment (every read() call a choice point)",
  "All schedules with at most 2 (thorough 3) non-default answers over every read() call of the run - short reads of 1 / ceil(n/2) / n-1 bytes, transient Interrupted, hard errors of 8 kinds each carrying a unique token - with replay-divergence checks; every uniform maximum read size 1..64 and larger through five BufReader capacities; Cursor, slice and file-backed readers (also on encodings with tail bytes / odd size fields); a 400 KB target whose chunks exceed 64 KiB; a hard error of every kind after exactly p bytes for every p below the end of the last frame under four delivery patterns. No-error schedules must give the in-memory result; error schedules must return IoError whose source() is that very error.", "§3 C14", TRUST),
 ("C15", EX, "exhaustive enumeration of unsupported-feature switches",
  "On five (thorough seven) base sprites: all 64,770 non-1:1 pixel ratios, ICC / fixed-gamma colour profiles at every chunk boundary, every u16 value outside the supported set for colour depth, layer type and blend mode on every layer, cel type on every cel, bits-per-tile on every tilemap cel, every u8 animation direction outside 0..2 on every tag, and every tileset with its 'embedded' bit cleared: 3.5 million files, each must fail to load with an error value.", "§3 C15", TRUST),
 ("C16", MC, "exhaustive call-history enumeration + exhaustive schedule exploration (shuttle DFS) + cross-profile digest comparison",
  "(a) compile-time Send+Sync assertions for 20 public types; (b) every sequence with repetition of length <= 4 (thorough 6, plus all 8! orders) over 14 representative accessor calls on one sprite, and of length <= 3 (thorough 4) over 10 calls on a 300-layer sprite whose cel coordinates differ only beyond bit 7, each call compared with a freshly loaded sprite, plus double loads of 2,100 files; (c) shuttle check_dfs - exhaustive, no sampling - over 4,044 thread configurations (2 threads x 2 calls, 3 threads x 1-2 calls) on one shared reference, 3.3 million schedules at call granularity; (e) load+walk digests of ~418,000 inputs compared case by case between the `checked` and `plain` profiles (thorough: and `unopt`). A free-running 16-thread run is reported as a labelled sampling supplement only.", "§3 C16",
  TRUST + " Preemption inside one accessor call is not explored: the crate has no synchronisation operation, interior mutability, statics or unsafe (reported per run as an assumption from a source scan)."),
 ("C17", MC, "exhaustive grid enumeration of blend inputs, metamorphic oracle (no reference implementation)",
  "On the same grids as C03 (8.6e8 points quick, ~7.6e10 thorough) and all 19 modes: alpha equals the Normal-mode alpha of the same inputs; a transparent source or zero opacity product leaves a visible backdrop unchanged; a transparent backdrop yields the source with scaled alpha; Normal/255/opaque returns the source; and no overflow check or debug assertion fires (the subject is compiled with both on).", "§3 C17", TRUST),
 ("C18", EX, "bounded-exhaustive enumeration of helper inputs vs the documented behaviour",
  "extrude_border on every (w,h) in [1,24]^2 (thorough [1,64]^2) plus 255/256/257 edge sizes with position-coded pixels; PaletteMapper over palettes loaded from real files for every assignment of three colours to every index subset of size <= 4 of {0,1,255,256,257,70000} x five entry-alpha patterns x failure x transparent options, and over palettes that do not start at 0 or have gaps x colour/permutation/absent queries x four alphas; to_indexed_image on every size up to 4x4 and on EVERY image of up to 4 pixels over a 6-pixel alphabet.", "§3 C18", TRUST),
 ("C19", MC, "exhaustive enumeration of cell-presence subsets, direct differential oracle + reference model",
  "For (frames, layers) in {(2,3),(3,2),(1,4),(4,1)}: every subset of present cells with unique offset/pixels/opacity/user data, in seven variants (plain, linked cell, tilemap layer, hidden layer, non-Normal blend, hidden group parent, full layer opacity with reduced cel opacity), sprites with more than 256 / 65,536 frames or layers, every non-forest level sequence up to 4 layers (model-free), plus the corpus files: the three access routes must agree on every attribute and image, single-visible-layer frames must equal the cel image, tilemap image must equal its cel image - checked directly on the library's outputs and against the model.", "§3 C19", TRUST),
]

m = {
  "version": 1,
  "setup_cmd": "cd /verif && ./setup.sh",
  "hooks": {
    "guard": "asefile_verif",
    "enable": "no hooks exist: every property is observed through the public API (plus a counting global allocator inside the worker binary); checks build /repo as a path dependency with its `utils` feature on. The guard name is reserved and unused.",
    "baseline_off_cmd": "cd /repo && cargo test --workspace --no-fail-fast --offline",
    "source_commits": [],
    "add_only": True
  },
  "engines": [
    {"name": "mc", "path": "/verif/mc", "serves_properties": [c[0] for c in checks],
     "kind_free_text": "hand-rolled bounded-exhaustive explorer in Rust: mc-core (file model, encoder, reference semantics, C++ reference blend, enumerators, evidence writer), mc-walk (whole-API observation, counting allocator, isolated worker processes; built in profiles checked/unopt/plain), mc-harness (one module per property), mc-sendsync (compile-time assertions); shuttle 0.9.3 check_dfs for C16 schedules"}
  ],
  "checks": [],
  "notes": "All checks are bounded-exhaustive enumerations run against the real library (no sampling decides anything; VERIF_SEED is recorded only). ./check <ID> <tier> rebuilds from /repo's working tree. Violations are written to /verif/replays/<ID>/ and can be re-run with ./check replay <file>. Known findings: /verif/known_findings.txt (currently only `fixed:` entries: 13 genuine defects repaired with fix: commits in /repo). Detection evidence: mutants/RESULTS.md, seeded/*/meta.json. See DESIGN.md.",
  "not_applicable": []
}
for (pid, cat, tech, text, ref, note) in checks:
    m["checks"].append({
        "property_id": pid,
        "quick_cmd": f"./check {pid} quick",
        "thorough_cmd": f"./check {pid} thorough",
        "evidence_file": f"/verif/evidence/{pid}.json",
        "replay_cmd_template": "./check replay {path}",
        "engine": "mc",
        "level_claimed": {"category": cat, "text": text, "design_ref": ref},
        "level_note": note,
        "technique": tech,
    })
json.dump(m, open(os.path.join(ROOT, "MANIFEST.json"), "w"), indent=1)
print("wrote MANIFEST.json with", len(m["checks"]), "checks")
