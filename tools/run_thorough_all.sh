#!/bin/bash
# Runs every thorough tier in sequence and keeps a copy of each evidence file under evidence-thorough/.
cd "$(dirname "$0")/.."
mkdir -p evidence-thorough
for i in ${@:-01 02 03 04 05 06 07 08 09 10 11 12 13 14 15 16 17 18 19}; do
  /usr/bin/time -f "C$i thorough: %e s, max RSS %M KB" ./check C$i thorough > /tmp/thorough-C$i.log 2>&1
  rc=$?
  tail -3 /tmp/thorough-C$i.log | grep -E '^\[C|thorough:'
  grep -E '^VIOLATION|KNOWN-FINDING|machinery' /tmp/thorough-C$i.log | head -5
  echo "C$i rc=$rc"
  cp evidence/C$i.json evidence-thorough/C$i.json 2>/dev/null
done
