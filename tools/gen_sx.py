#!/usr/bin/env python3
"""gen_sx.py <repo> <out>: write a copy of the library crate whose synchronisation primitives are
shuttle's, so that every lock / atomic / once / channel / thread operation inside the library is
a scheduling point of shuttle's controlled scheduler (exhaustive DFS in mc-sx).

The copy is derived from <repo>'s *current working tree* on every run; files are rewritten only
when their content changed (keeps cargo's fingerprints).  The rewrite is textual:
    std::sync::...      ->  crate::sx_sync::...      (shuttle::sync::* plus std's OnceLock/LazyLock)
    std::thread::...    ->  shuttle::thread::...
    use std::{.., sync::X, ..};  ->  the sync / thread items split off into their own `use`
    thread_local!       ->  shuttle::thread_local!
On the unchanged tree nothing matches and the copy differs from /repo only by the added module.
Prints a JSON summary: {"rewrites": n, "leftover": [...]}; leftover lists lines that still seem to
reach std's primitives by another spelling (reported as an assumption, never as a verdict)."""
import json, os, re, sys, shutil

repo, out = sys.argv[1], sys.argv[2]
os.makedirs(os.path.join(out, "src"), exist_ok=True)

def put(path, text):
    old = None
    if os.path.exists(path):
        with open(path, encoding="utf-8", errors="surrogateescape") as f:
            old = f.read()
    if old != text:
        os.makedirs(os.path.dirname(path), exist_ok=True)
        with open(path, "w", encoding="utf-8", errors="surrogateescape") as f:
            f.write(text)


def split_top(s):
    items, depth, cur = [], 0, ""
    for ch in s:
        if ch == "{":
            depth += 1
        elif ch == "}":
            depth -= 1
        if ch == "," and depth == 0:
            items.append(cur)
            cur = ""
        else:
            cur += ch
    if cur.strip():
        items.append(cur)
    return [i.strip() for i in items if i.strip()]

def regroup(text):
    """`use std::{a, sync::X, thread, b};` -> `use std::{a, b}; use crate::sx_sync::X; use shuttle::thread;`"""
    n = 0
    def fix(m):
        nonlocal n
        vis, body = m.group(1) or "", m.group(2)
        keep, moved = [], []
        for it in split_top(body):
            if it == "sync" or it.startswith("sync::") or it.startswith("sync "):
                moved.append("crate::sx_sync" + it[4:])
            elif it == "thread" or it.startswith("thread::") or it.startswith("thread "):
                moved.append("shuttle::thread" + it[6:])
            else:
                keep.append(it)
        if not moved:
            return m.group(0)
        n += len(moved)
        out = []
        if keep:
            out.append(f"{vis}use std::{{{', '.join(keep)}}};")
        for mv in moved:
            if mv in ("crate::sx_sync", ):
                out.append(f"{vis}use crate::sx_sync as sync;")
            else:
                out.append(f"{vis}use {mv};")
        return " ".join(out) + "\n" * m.group(0).count("\n")  # keep line numbers
    text = re.sub(r"(?m)^(\s*(?:pub(?:\([a-z]+\))?\s+)?)use\s+(?:::)?std::\{((?:[^{};]|\{[^{}]*\})*)\}\s*;", fix, text)
    # `use std::sync;` / `use std::sync as x;`
    text, k = re.subn(r"(?m)^(\s*(?:pub(?:\([a-z]+\))?\s+)?)use\s+(?:::)?std::sync(\s+as\s+\w+)?\s*;", lambda m: f"{m.group(1)}use crate::sx_sync{m.group(2) or ' as sync'};", text)
    n += k
    text, k = re.subn(r"(?m)^(\s*(?:pub(?:\([a-z]+\))?\s+)?)use\s+(?:::)?std::thread(\s+as\s+\w+)?\s*;", lambda m: f"{m.group(1)}use shuttle::thread{m.group(2) or ''};", text)
    n += k
    return text, n

# ---- manifest
man = open(os.path.join(repo, "Cargo.toml"), encoding="utf-8").read()
lines, outl, in_dev, added = man.splitlines(), [], False, False
for l in lines:
    if l.strip().startswith("["):
        in_dev = l.strip() in ("[dev-dependencies]",) or l.strip().startswith("[[bench") or l.strip().startswith("[[example") or l.strip().startswith("[[test")
    if in_dev:
        continue
    if l.strip().startswith("include ="):
        continue
    outl.append(l)
    if l.strip() == "[dependencies]":
        outl.append('shuttle = "0.9"')
        added = True
if not added:
    outl += ["[dependencies]", 'shuttle = "0.9"']
put(os.path.join(out, "Cargo.toml"), "\n".join(outl) + "\n")
for extra in ("README.md", "build.rs"):
    p = os.path.join(repo, extra)
    if os.path.exists(p):
        put(os.path.join(out, extra), open(p, encoding="utf-8", errors="surrogateescape").read())

# ---- sources
SHIM = '''
/// (verification build only) the library's view of `std::sync`
#[allow(unused_imports, dead_code)]
pub(crate) mod sx_sync {
    pub use shuttle::sync::*;
    pub use std::sync::{LazyLock, OnceLock};
}
'''
rewrites, leftover, seen = 0, [], set()
srcdir = os.path.join(repo, "src")
for root, dirs, files in os.walk(srcdir):
    for fn in files:
        p = os.path.join(root, fn)
        rel = os.path.relpath(p, srcdir)
        seen.add(rel)
        if not fn.endswith(".rs"):
            with open(p, "rb") as f:
                data = f.read()
            q = os.path.join(out, "src", rel)
            os.makedirs(os.path.dirname(q), exist_ok=True)
            if not os.path.exists(q) or open(q, "rb").read() != data:
                open(q, "wb").write(data)
            continue
        t = open(p, encoding="utf-8", errors="surrogateescape").read()
        t, n0 = regroup(t)
        t2, n1 = re.subn(r"(?<![A-Za-z0-9_:])(::)?std::sync::", "crate::sx_sync::", t)
        t2, n2 = re.subn(r"(?<![A-Za-z0-9_:])(::)?std::thread::", "shuttle::thread::", t2)
        t2, n3 = re.subn(r"(?<![A-Za-z0-9_:!])(std::)?thread_local!", "shuttle::thread_local!", t2)
        # `use std::{ ..., sync::X, ... }` and `use std::sync;` spellings: reported, not rewritten
        for i, line in enumerate(t2.splitlines()):
            code = line.split("//")[0]
            if re.search(r"std::\{[^}]*\b(sync|thread)\b", code) or re.search(r"use\s+std::(sync|thread)\s*(;|as)", code) or re.search(r"\b(core|alloc)::sync::", code):
                leftover.append(f"{rel}:{i+1}: {code.strip()[:100]}")
        rewrites += n0 + n1 + n2 + n3
        if rel == "lib.rs":
            t2 = t2 + SHIM
        put(os.path.join(out, "src", rel), t2)
# remove files that no longer exist in the repo
for root, dirs, files in os.walk(os.path.join(out, "src")):
    for fn in files:
        rel = os.path.relpath(os.path.join(root, fn), os.path.join(out, "src"))
        if rel not in seen:
            os.remove(os.path.join(root, fn))
print(json.dumps({"rewrites": rewrites, "leftover": leftover}))
