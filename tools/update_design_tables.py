#!/usr/bin/env python3
"""Regenerates the generated tables inside DESIGN.md: §7.2 (coverage, from evidence/*.json)
and §8.2 (seeded changes, from seeded/*/meta.json).  Markers: <!-- BEGIN x --> ... <!-- END x -->."""
import json, glob, os, re
root = os.path.dirname(os.path.dirname(os.path.abspath(__file__)))

def coverage():
    out = ["| property | tier | cases (states) | transitions | distinct outcomes | families | wall s |", "|---|---|---|---|---|---|---|"]
    for f in sorted(glob.glob(os.path.join(root, "evidence", "C*.json"))):
        e = json.load(open(f)); c = e["coverage"]
        out.append(f"| {e['property_id']} | {e['tier']} | {c['evaluations']:,} | {c['transitions']:,} | {c['distinct_nontrivial']:,} | {len(c.get('families', []))} | {e['wall_s']:.1f} |")
    return "\n".join(out)

def seeded():
    out = ["| seed | breaks | what it needs to manifest (short) | reported by (quick tiers) |", "|---|---|---|---|"]
    for d in sorted(glob.glob(os.path.join(root, "seeded", "C*"))):
        mp = os.path.join(d, "meta.json")
        if not os.path.exists(mp): continue
        m = json.load(open(mp))
        needs = m.get("needs_short") or m.get("needs_to_manifest", "")
        rep = m.get("reported_by")
        rep_s = ", ".join(rep) if rep else ("not yet run" if rep is None else "**MISSED**")
        out.append(f"| {m['id']} | {m['breaks_property']} | {needs} | {rep_s} |")
    return "\n".join(out)

s = open(os.path.join(root, "DESIGN.md")).read()
for name, fn in (("COVERAGE", coverage), ("SEEDED", seeded)):
    b, e = f"<!-- BEGIN {name} -->", f"<!-- END {name} -->"
    if b in s and e in s:
        s = s[:s.index(b) + len(b)] + "\n" + fn() + "\n" + s[s.index(e):]
open(os.path.join(root, "DESIGN.md"), "w").write(s)
print("tables updated")
