#!/usr/bin/env python3
"""Prints a markdown table of what the committed evidence files say each check covered."""
import json, glob, os
root = os.path.dirname(os.path.dirname(os.path.abspath(__file__)))
print("| property | tier | cases (states) | transitions | distinct outcomes | families | wall s |")
print("|---|---|---|---|---|---|---|")
for f in sorted(glob.glob(os.path.join(root, "evidence", "C*.json"))):
    e = json.load(open(f)); c = e["coverage"]
    print(f"| {e['property_id']} | {e['tier']} | {c['evaluations']:,} | {c['transitions']:,} | {c['distinct_nontrivial']:,} | {len(c.get('families', []))} | {e['wall_s']:.1f} |")
