//! mc-sx: exhaustive thread schedules (shuttle DFS) of the C16 accessor calls against the
//! copy of the library whose locks / atomics / once cells / channels are shuttle's, so that
//! every synchronisation operation *inside* the library is a scheduling point.
//!
//! usage: mc-sx <quick|thorough> [--mapper] [--case <label>]   (--mapper: the C18 PaletteMapper harness)
//! stdout: one JSON line per configuration
//!   {"case": "...", "schedules": n, "capped": bool, "bad": null | "message"}
//! and a final {"done": true, "configs": n}.  Loading the sprite, the baselines (each call on
//! its own freshly loaded sprite) and the threads all run inside the shuttle execution, because
//! shuttle's primitives only work there.
#[path = "../../mc/harness/src/props/c16_subject.rs"]
mod c16_subject;
use c16_subject::*;
use std::io::Cursor;
use std::sync::atomic::{AtomicU64, AtomicUsize, Ordering::Relaxed};
use std::sync::{Arc, Mutex};

fn label(cfg: &[Vec<usize>]) -> String {
    format!("{:?}", cfg.iter().map(|t| t.iter().map(|i| CALLS[*i].0).collect::<Vec<_>>()).collect::<Vec<_>>())
}

thread_local! {
    static LAST_PANIC: std::cell::RefCell<Option<String>> = const { std::cell::RefCell::new(None) };
}

/// C18: one PaletteMapper shared by 2-3 threads that look up colours at overlapping times; every
/// interleaving of the mapper's own synchronisation operations (if it has any) is explored.
fn mapper_mode(thorough: bool, only: Option<String>) {
    use asefile::util::{MappingOptions, PaletteMapper};
    let bytes = Arc::new(subject().encode());
    // colours: four palette entries of the subject and one colour the palette does not hold
    let colours: Vec<[u8; 3]> = {
        let f = asefile::AsepriteFile::read(Cursor::new(&bytes[..])).expect("subject loads");
        let p = f.palette().expect("palette");
        let mut v: Vec<[u8; 3]> = (0..4).map(|i| { let c = p.color(i).unwrap(); [c.red(), c.green(), c.blue()] }).collect();
        v.push([1, 2, 3]);
        v
    };
    let nc = colours.len();
    let mut configs: Vec<Vec<Vec<usize>>> = Vec::new();
    for a in 0..nc { for b in 0..nc { for c in 0..nc { for d in 0..nc { configs.push(vec![vec![a, b], vec![c, d]]); } } } }
    for a in 0..nc { for b in 0..nc { for c in 0..nc { configs.push(vec![vec![a], vec![b], vec![c]]); } } }
    if thorough {
        for a in 0..nc { for b in 0..nc { for c in 0..nc { configs.push(vec![vec![a, b, c], vec![c, a, b]]); } } }
    }
    let lab = |cfg: &Vec<Vec<usize>>| format!("mapper lookups {:?}", cfg.iter().map(|t| t.iter().map(|i| colours[*i]).collect::<Vec<_>>()).collect::<Vec<_>>());
    let configs: Vec<Vec<Vec<usize>>> = configs.into_iter().filter(|c| only.as_ref().map_or(true, |o| *o == lab(c))).collect();
    let cap: usize = if thorough { 1_000_000 } else { 20_000 };
    let failing = AtomicUsize::new(0);
    let next = AtomicUsize::new(0);
    let out = Mutex::new(());
    let workers = std::thread::available_parallelism().map(|n| n.get()).unwrap_or(4).min(16);
    std::thread::scope(|s| {
        for _ in 0..workers {
            s.spawn(|| loop {
                let k = next.fetch_add(1, Relaxed);
                if k >= configs.len() {
                    break;
                }
                if failing.load(Relaxed) >= 12 {
                    let _g = out.lock().unwrap();
                    println!("{}", serde_json::json!({"case": lab(&configs[k]), "skipped": true}));
                    continue;
                }
                let cfg = configs[k].clone();
                let count = Arc::new(AtomicU64::new(0));
                let bad: Arc<Mutex<Option<String>>> = Arc::new(Mutex::new(None));
                let (bytes2, cfg2, count2, bad2, cols) = (bytes.clone(), cfg.clone(), count.clone(), bad.clone(), colours.clone());
                LAST_PANIC.with(|p| *p.borrow_mut() = None);
                let r = std::panic::catch_unwind(std::panic::AssertUnwindSafe(|| {
                    shuttle::check_dfs(
                        move || {
                            count2.fetch_add(1, Relaxed);
                            let f = asefile::AsepriteFile::read(Cursor::new(&bytes2[..])).expect("subject loads");
                            let p = f.palette().expect("palette");
                            // expected: each colour looked up alone on a mapper of its own
                            let expect: Vec<u8> = cols.iter().map(|c| PaletteMapper::new(p, MappingOptions { failure: 77, transparent: Some(66) }).lookup(c[0], c[1], c[2], 255)).collect();
                            let expect = Arc::new(expect);
                            let mapper = Arc::new(PaletteMapper::new(p, MappingOptions { failure: 77, transparent: Some(66) }));
                            let mut hs = Vec::new();
                            for (ti, calls) in cfg2.iter().enumerate() {
                                let (mapper, expect, calls, bad3, cols) = (mapper.clone(), expect.clone(), calls.clone(), bad2.clone(), cols.clone());
                                hs.push(shuttle::thread::spawn(move || {
                                    for i in calls {
                                        shuttle::thread::yield_now();
                                        let c = cols[i];
                                        let got = mapper.lookup(c[0], c[1], c[2], 255);
                                        if got != expect[i] {
                                            let mut b = bad3.lock().unwrap();
                                            if b.is_none() {
                                                *b = Some(format!("thread {}: lookup{:?} = {} under this schedule, {} on a mapper of its own", ti, c, got, expect[i]));
                                            }
                                            drop(b);
                                            panic!("mismatch");
                                        }
                                    }
                                }));
                            }
                            for h in hs {
                                h.join().unwrap();
                            }
                        },
                        Some(cap),
                    );
                }));
                let nsch = count.load(Relaxed);
                let mut b = bad.lock().unwrap().clone();
                if r.is_err() && b.is_none() {
                    b = Some(format!("panic / deadlock under shuttle: {}", LAST_PANIC.with(|p| p.borrow_mut().take()).unwrap_or_default()));
                }
                if b.is_some() {
                    failing.fetch_add(1, Relaxed);
                }
                let line = serde_json::json!({"case": lab(&cfg), "threads": cfg.len(), "calls": cfg.iter().map(|t| t.len()).sum::<usize>(), "schedules": nsch, "capped": nsch as usize >= cap, "bad": b});
                let _g = out.lock().unwrap();
                println!("{}", line);
            });
        }
    });
    println!("{}", serde_json::json!({"done": true, "configs": configs.len(), "cap": cap}));
}

fn main() {
    let args: Vec<String> = std::env::args().collect();
    let thorough = args.get(1).map_or(false, |a| a == "thorough");
    let only: Option<String> = args.iter().position(|a| a == "--case").and_then(|i| args.get(i + 1).cloned());
    std::panic::set_hook(Box::new(|info| {
        let loc = info.location().map(|l| format!("{}:{}", l.file().rsplit('/').next().unwrap_or(""), l.line())).unwrap_or_default();
        let msg = if let Some(s) = info.payload().downcast_ref::<&str>() {
            s.to_string()
        } else if let Some(s) = info.payload().downcast_ref::<String>() {
            s.clone()
        } else {
            "<non-string panic>".into()
        };
        LAST_PANIC.with(|p| {
            let mut p = p.borrow_mut();
            // keep the first message of a cascade (shuttle re-panics with the schedule)
            let line = format!("{}: {}", loc, msg);
            *p = Some(match p.take() {
                Some(old) if !old.is_empty() => format!("{} | {}", old, line.chars().take(400).collect::<String>()),
                _ => line.chars().take(400).collect(),
            });
        });
    }));
    if args.iter().any(|a| a == "--mapper") {
        return mapper_mode(thorough, only);
    }
    let bytes = Arc::new(subject().encode());
    let n = CALLS.len();
    let cap: usize = if thorough { 1_000_000 } else { 20_000 };
    // once this many configurations have failed the rest is skipped (reported as skipped)
    let max_failing = 12usize;
    let failing = AtomicUsize::new(0);
    let mut configs: Vec<Vec<Vec<usize>>> = Vec::new();
    // A: 2 threads x 1 call over all calls
    let np: Vec<usize> = (0..n).filter(|i| !panics(*i)).collect();
    for &a in &np {
        for &b in &np {
            configs.push(vec![vec![a], vec![b]]);
        }
    }
    // B: 3 threads x 1 call over a subset (frame image, both kinds of cel image, tilemap image, tile lookups, palette, layers walk)
    let sub: Vec<usize> = vec![0, 2, 18, 4, 5, 8, 12];
    for a in &sub {
        for b in &sub {
            for c in &sub {
                configs.push(vec![vec![*a], vec![*b], vec![*c]]);
            }
        }
    }
    // C: 2 threads x 2 calls over the rendering calls
    let img: Vec<usize> = if thorough { vec![0, 1, 2, 18, 3, 4, 6, 7] } else { vec![2, 18, 4, 7] };
    for a in &img {
        for b in &img {
            for c in &img {
                for d in &img {
                    configs.push(vec![vec![*a, *b], vec![*c, *d]]);
                }
            }
        }
    }
    let configs: Vec<Vec<Vec<usize>>> = configs.into_iter().filter(|c| only.as_ref().map_or(true, |o| *o == label(c))).collect();
    let next = AtomicUsize::new(0);
    let out = Mutex::new(());
    let workers = std::thread::available_parallelism().map(|n| n.get()).unwrap_or(4).min(16);
    std::thread::scope(|s| {
        for _ in 0..workers {
            s.spawn(|| loop {
                let k = next.fetch_add(1, Relaxed);
                if k >= configs.len() {
                    break;
                }
                if failing.load(Relaxed) >= max_failing {
                    let _g = out.lock().unwrap();
                    println!("{}", serde_json::json!({"case": label(&configs[k]), "skipped": true}));
                    continue;
                }
                let cfg = configs[k].clone();
                let count = Arc::new(AtomicU64::new(0));
                let bad: Arc<Mutex<Option<String>>> = Arc::new(Mutex::new(None));
                let (bytes2, cfg2, count2, bad2) = (bytes.clone(), cfg.clone(), count.clone(), bad.clone());
                LAST_PANIC.with(|p| *p.borrow_mut() = None);
                let r = std::panic::catch_unwind(std::panic::AssertUnwindSafe(|| {
                    shuttle::check_dfs(
                        move || {
                            count2.fetch_add(1, Relaxed);
                            let load = || asefile::AsepriteFile::read(Cursor::new(&bytes2[..])).expect("subject loads");
                            // baselines: each call of this configuration on its own fresh sprite
                            let mut base = vec![0u64; CALLS.len()];
                            for t in cfg2.iter() {
                                for i in t {
                                    base[*i] = (CALLS[*i].1)(&load());
                                }
                            }
                            let base = Arc::new(base);
                            let file = Arc::new(load());
                            let mut hs = Vec::new();
                            for (ti, calls) in cfg2.iter().enumerate() {
                                let (file, base, calls, bad3) = (file.clone(), base.clone(), calls.clone(), bad2.clone());
                                hs.push(shuttle::thread::spawn(move || {
                                    for i in calls {
                                        shuttle::thread::yield_now();
                                        let d = (CALLS[i].1)(&file);
                                        if d != base[i] {
                                            let mut b = bad3.lock().unwrap();
                                            if b.is_none() {
                                                *b = Some(format!("thread {}: {} returned a different result under this schedule than on a fresh sprite", ti, CALLS[i].0));
                                            }
                                            drop(b);
                                            // abort this configuration's exploration at its first failing schedule
                                            panic!("mismatch");
                                        }
                                    }
                                }));
                            }
                            for h in hs {
                                h.join().unwrap();
                            }
                        },
                        Some(cap),
                    );
                }));
                let nsch = count.load(Relaxed);
                let mut b = bad.lock().unwrap().clone();
                if r.is_err() && b.is_none() {
                    b = Some(format!("panic / deadlock under shuttle: {}", LAST_PANIC.with(|p| p.borrow_mut().take()).unwrap_or_default()));
                }
                if b.is_some() {
                    failing.fetch_add(1, Relaxed);
                }
                let line = serde_json::json!({"case": label(&cfg), "threads": cfg.len(), "calls": cfg.iter().map(|t| t.len()).sum::<usize>(), "schedules": nsch, "capped": nsch as usize >= cap, "bad": b});
                let _g = out.lock().unwrap();
                println!("{}", line);
            });
        }
    });
    println!("{}", serde_json::json!({"done": true, "configs": configs.len(), "cap": cap}));
}
