//! C18 — utility helpers: border extrusion and palette mapping behave as documented.
use crate::common::*;
use crate::observe::guarded;
use asefile::util::{extrude_border, to_indexed_image, MappingOptions, PaletteMapper};
use image::RgbaImage;
use mc_core::ase::*;
use mc_core::explore::*;
use mc_core::gen::{self, *};
use mc_core::sem::Fmt;
use rayon::prelude::*;
use serde_json::json;

fn code(x: u32, y: u32) -> [u8; 4] {
    // unique 32-bit code of the position
    let v = (y << 16 | x).wrapping_mul(0x9E37_79B1) ^ 0x5bd1_e995;
    let v = v.wrapping_add(y << 16 | x);
    // keep uniqueness: encode position directly, scrambled bytes
    let p = y << 16 | x;
    let _ = v;
    [(p & 255) as u8 ^ 0x5A, ((p >> 8) & 255) as u8 ^ 0xC3, ((p >> 16) & 255) as u8 ^ 0x3C, ((p >> 24) & 255) as u8 ^ 0xA5]
}

pub fn run(ctx: &Ctx) -> i32 {
    let thorough = ctx.tier == Tier::Thorough;
    // ---- extrude_border
    if ctx.wants_family("extrude") {
        let mut sizes: Vec<(u32, u32)> = Vec::new();
        let m = if thorough { 64 } else { 24 };
        for w in 1..=m {
            for h in 1..=m {
                sizes.push((w, h));
            }
        }
        for a in [255u32, 256, 257] {
            for b in [1u32, 2, 255, 256, 257] {
                sizes.push((a, b));
                sizes.push((b, a));
            }
        }
        sizes.sort();
        sizes.dedup();
        ctx.family("extrude", sizes.len() as u64, &format!("extrude_border on every (w,h) in [1,{}]^2 plus {{255,256,257}} x {{1,2,255,256,257}} both ways; pixel (x,y) = unique code of (x,y)", m), true);
        sizes.par_iter().for_each(|(w, h)| {
            let case = || format!("{}x{}", w, h);
            if !ctx.wants("extrude", &case) {
                return;
            }
            let mut img = RgbaImage::new(*w, *h);
            for y in 0..*h {
                for x in 0..*w {
                    img.put_pixel(x, y, image::Rgba(code(x, y)));
                }
            }
            let mut p = Vec::new();
            let out = guarded(&mut p, || "extrude_border".into(), || extrude_border(img));
            ctx.eval(((*w + 2) * (*h + 2)) as u64);
            let Some(out) = out else {
                ctx.violation(Violation { family: "extrude".into(), case: case(), sig: format!("panic:{}", sig_of(&p[0].1)), detail: format!("extrude_border panicked: {}", p[0].1), bytes: None, extra: json!({}) });
                return;
            };
            ctx.outcome(hash64(&(out.dimensions(), out.as_raw().len())));
            if out.dimensions() != (w + 2, h + 2) {
                ctx.violation(Violation { family: "extrude".into(), case: case(), sig: "dimensions".into(), detail: format!("result is {:?}, expected {}x{}", out.dimensions(), w + 2, h + 2), bytes: None, extra: json!({}) });
                return;
            }
            for y in 0..h + 2 {
                for x in 0..w + 2 {
                    let sx = (x as i64 - 1).clamp(0, *w as i64 - 1) as u32;
                    let sy = (y as i64 - 1).clamp(0, *h as i64 - 1) as u32;
                    if out.get_pixel(x, y).0 != code(sx, sy) {
                        ctx.violation(Violation { family: "extrude".into(), case: case(), sig: "pixel".into(), detail: format!("output pixel ({},{}) is the code of another position than ({},{})", x, y, sx, sy), bytes: None, extra: json!({}) });
                        return;
                    }
                }
            }
        });
        ctx.sample(json!({"family": "extrude", "case": "3x1", "meaning": "a 3x1 image with position-coded pixels; the 5x3 result must satisfy out(x,y) = in(clamp(x-1), clamp(y-1))"}));
    }

    // ---- extrude_border must not look at pixel values
    if ctx.wants_family("extrude-values") {
        // pixel alphabet: alpha 0 with and without colour, the alpha boundaries, the channel extremes
        const A: [[u8; 4]; 12] = [[0, 0, 0, 0], [255, 0, 0, 0], [1, 2, 3, 0], [255, 255, 255, 0], [9, 8, 7, 1], [9, 8, 7, 127], [9, 8, 7, 128], [9, 8, 7, 254], [0, 0, 0, 255], [255, 255, 255, 255], [0, 255, 0, 255], [255, 0, 255, 1]];
        // (kind, w, h, a, b): 0 = value A[b] at position a of a position-coded w x h image; 1 = 2x2 image, assignment number a over A[..6];
        // 2 = 256 x h image whose channel a sweeps all byte values along x (other channels b-dependent constants)
        let mut cases: Vec<(u8, u32, u32, u32, u32)> = Vec::new();
        for w in 1..=4u32 {
            for h in 1..=4u32 {
                for pos in 0..w * h {
                    for v in 0..A.len() as u32 {
                        cases.push((0, w, h, pos, v));
                    }
                }
            }
        }
        for a in 0..6u32.pow(4) {
            cases.push((1, 2, 2, a, 0));
        }
        for ch in 0..4u32 {
            for h in [1u32, 2, 3] {
                for b in 0..3u32 {
                    cases.push((2, 256, h, ch, b));
                }
            }
        }
        ctx.family("extrude-values", cases.len() as u64, "extrude_border on images whose pixel VALUES vary: each of 12 values (alpha 0 with and without colour, alpha 1/127/128/254/255, channel extremes) at every position of every position-coded image of 1x1..4x4; all 6^4 assignments of six of them to a 2x2 image; 256-wide images of height 1/2/3 in which one channel sweeps all byte values (the others 0 / 255 / mixed); out(x,y) must equal in(clamp(x-1), clamp(y-1)) byte for byte", true);
        cases.par_iter().for_each(|(kind, w, h, a, b)| {
            let case = || format!("kind={} {}x{} a={} b={}", kind, w, h, a, b);
            if !ctx.wants("extrude-values", &case) {
                return;
            }
            let mut img = RgbaImage::new(*w, *h);
            for y in 0..*h {
                for x in 0..*w {
                    let px = match kind {
                        0 => {
                            if y * w + x == *a {
                                A[*b as usize]
                            } else {
                                code(x, y)
                            }
                        }
                        1 => A[((a / 6u32.pow(y * 2 + x)) % 6) as usize],
                        _ => {
                            let other = match b {
                                0 => 0u8,
                                1 => 255,
                                _ => (x as u8).wrapping_mul(7) ^ (y as u8 + 1),
                            };
                            let mut p = [other; 4];
                            p[*a as usize] = x as u8;
                            p
                        }
                    };
                    img.put_pixel(x, y, image::Rgba(px));
                }
            }
            let src = img.clone();
            let mut p = Vec::new();
            let out = guarded(&mut p, || "extrude_border".into(), || extrude_border(img));
            ctx.eval(((*w + 2) * (*h + 2)) as u64);
            let Some(out) = out else {
                ctx.violation(Violation { family: "extrude-values".into(), case: case(), sig: format!("panic:{}", sig_of(&p[0].1)), detail: format!("extrude_border panicked: {}", p[0].1), bytes: None, extra: json!({}) });
                return;
            };
            ctx.outcome(hash64(&(out.dimensions(), hash64(&out.as_raw()))));
            if out.dimensions() != (w + 2, h + 2) {
                ctx.violation(Violation { family: "extrude-values".into(), case: case(), sig: "dimensions".into(), detail: format!("result is {:?}, expected {}x{}", out.dimensions(), w + 2, h + 2), bytes: None, extra: json!({}) });
                return;
            }
            for y in 0..h + 2 {
                for x in 0..w + 2 {
                    let sx = (x as i64 - 1).clamp(0, *w as i64 - 1) as u32;
                    let sy = (y as i64 - 1).clamp(0, *h as i64 - 1) as u32;
                    if out.get_pixel(x, y).0 != src.get_pixel(sx, sy).0 {
                        ctx.violation(Violation { family: "extrude-values".into(), case: case(), sig: "pixel".into(), detail: format!("output pixel ({},{}) is {:?}, source pixel ({},{}) is {:?}", x, y, out.get_pixel(x, y).0, sx, sy, src.get_pixel(sx, sy).0), bytes: None, extra: json!({}) });
                        return;
                    }
                }
            }
        });
    }

    // ---- PaletteMapper
    if ctx.wants_family("mapper") {
        let idxs = [0u32, 1, 255, 256, 257, 70000, 65536, 65791];
        let cols = [[10u8, 20, 30], [200, 100, 50], [10, 30, 20]];
        // index subsets of size 1..=4
        let mut subsets: Vec<Vec<usize>> = Vec::new();
        // indices 5.. (70000, 65536, 65791) need 65,537+ entry palettes: in the quick tier only alone or in pairs
        let big = |s: &Vec<usize>| s.iter().any(|i| *i >= 5);
        for m in 1u32..256 {
            let s: Vec<usize> = (0..8).filter(|i| m >> i & 1 == 1).collect();
            if s.len() <= 4 && (thorough || !big(&s) || s.len() <= 2) {
                subsets.push(s);
            }
        }
        // entry alpha patterns (the mapper must ignore the entries' alpha): all opaque, all 0, alternating, all 128
        let mut cases: Vec<(Vec<usize>, Vec<usize>, usize)> = Vec::new();
        for s in &subsets {
            for asg in product_vec(&vec![3usize; s.len()]) {
                for ap in 0..5usize {
                    if ap > 0 && big(s) && !thorough {
                        continue;
                    }
                    cases.push((s.clone(), asg.clone(), ap));
                }
            }
        }
        let queries: Vec<[u8; 3]> = vec![[10, 20, 30], [200, 100, 50], [10, 30, 20], [20, 10, 30], [30, 20, 10], [20, 30, 10], [30, 10, 20], [1, 2, 3], [50, 100, 200]];
        ctx.family("mapper", cases.len() as u64 * 6, "palettes built through real files (new-format chunk): every assignment of colours {c1,c2,c3} (c3 = c1 with green/blue swapped) to every index subset of size <= 4 of {0,1,255,256,257,70000,65536,65791} (filler entries elsewhere) x entry-alpha pattern {mixed, all 0, alternating 255/0, alternating 0/255, all 128} x failure {0,7} x transparent {None,Some(0),Some(9)}; queries: the colours, all channel permutations of c1, absent colours x alpha {0,1,254,255}", true);
        cases.par_iter().for_each(|(s, asg, ap)| {
            let maxi = s.iter().map(|i| idxs[*i]).max().unwrap();
            let n = maxi as usize + 1;
            let mut ents: Vec<PalEntry> = (0..n as u32).map(|i| pal_entry([(i & 255) as u8, ((i >> 8) & 255) as u8, 77, 255], None)).collect();
            for (k, i) in s.iter().enumerate() {
                let c = cols[asg[k]];
                let a = match ap {
                    0 => {
                        if k % 2 == 0 {
                            255
                        } else {
                            128
                        }
                    }
                    1 => 0,
                    2 => [255u8, 0][k % 2],
                    3 => [0u8, 255][k % 2],
                    _ => 128,
                };
                ents[idxs[*i] as usize] = pal_entry([c[0], c[1], c[2], a], None);
            }
            let mut f = gen::file(1, 1, &Fmt::Rgba, &[1]);
            f.frames[0].push(new_palette(0, ents));
            let bytes = f.encode();
            let Loaded::Ok(file) = load(&bytes) else {
                ctx.violation(Violation { family: "mapper".into(), case: format!("{:?}/{:?}/{}", s, asg, ap), sig: "palette-file-refused".into(), detail: "palette file did not load".into(), bytes: None, extra: json!({}) });
                return;
            };
            let pal = file.palette().unwrap();
            for failure in [0u8, 7] {
                for tr in [None, Some(0u8), Some(9)] {
                    let case = || format!("indices={:?} colours={:?} alphas#{} failure={} transparent={:?}", s.iter().map(|i| idxs[*i]).collect::<Vec<_>>(), asg, ap, failure, tr);
                    if !ctx.wants("mapper", &case) {
                        continue;
                    }
                    let mut p = Vec::new();
                    let mapper = guarded(&mut p, || "PaletteMapper::new".into(), || PaletteMapper::new(pal, MappingOptions { failure, transparent: tr }));
                    let Some(mapper) = mapper else {
                        ctx.violation(Violation { family: "mapper".into(), case: case(), sig: format!("panic:{}", sig_of(&p[0].1)), detail: p[0].1.clone(), bytes: None, extra: json!({}) });
                        continue;
                    };
                    let mut results = Vec::new();
                    for q in &queries {
                        for a in [0u8, 1, 254, 255] {
                            let r = mapper.lookup(q[0], q[1], q[2], a);
                            results.push(r);
                            let occ: Vec<u32> = s.iter().enumerate().filter(|(k, _)| cols[asg[*k]] == *q).map(|(_, i)| idxs[*i]).collect();
                            let ok = if a != 255 {
                                r == tr.unwrap_or(failure)
                            } else if occ.is_empty() {
                                r == failure
                            } else if occ.iter().all(|i| *i < 256) {
                                occ.contains(&(r as u32))
                            } else if occ.iter().all(|i| *i >= 256) {
                                r == failure
                            } else {
                                // occurrences on both sides of 256: the statement's first clause does not apply
                                r == failure || occ.contains(&(r as u32))
                            };
                            if !ok {
                                ctx.violation(Violation { family: "mapper".into(), case: case(), sig: format!("lookup:alpha{}", if a == 255 { "255" } else { "<255" }), detail: format!("lookup({:?}, alpha {}) = {}; occurrences of that colour at indices {:?}", q, a, r, occ), bytes: Some(bytes.clone()), extra: json!({}) });
                            }
                        }
                    }
                    ctx.eval(results.len() as u64);
                    ctx.outcome(hash64(&results));
                }
            }
        });
        ctx.sample(json!({"family": "mapper", "case": "indices=[1, 256] colours=[0, 0] failure=7 transparent=Some(9)", "meaning": "colour c1 at palette indices 1 and 256; opaque c1 may map to 1 or to the failure index 7, any alpha != 255 maps to 9"}));
    }

    // ---- PaletteMapper on palettes that do not start at index 0 or have gaps
    if ctx.wants_family("mapper-offset") {
        let mut cases: Vec<(u8, u32, usize)> = Vec::new();
        for kind in 0..3u8 {
            for first in [1u32, 3, 5, 100, 250, 255] {
                for len in [1usize, 2, 6, 10] {
                    cases.push((kind, first, len));
                }
            }
        }
        ctx.family("mapper-offset", cases.len() as u64, "palettes whose ids are not 0..n: new-format chunk with first in {1,3,5,100,250,255} x length {1,2,6,10} (kind 0), legacy 0x0004 with a leading skip (kind 1), legacy with a gap in the middle (kind 2); every entry's colour must map to its own index when that is below 256, absent colours to the failure index", true);
        cases.par_iter().for_each(|(kind, first, len)| {
            let case = || format!("kind={} first={} len={}", kind, first, len);
            if !ctx.wants("mapper-offset", &case) {
                return;
            }
            let col = |i: u32| [(i * 7 + 3) as u8, (200 - i % 100) as u8, (i * 3) as u8];
            let mut f = gen::file(1, 1, &Fmt::Rgba, &[1]);
            let ids: Vec<u32> = match kind {
                0 => (*first..*first + *len as u32).collect(),
                1 => (*first.min(&255)..(*first.min(&255) + *len as u32).min(256)).collect(),
                _ => (0..2u32).chain((*first.min(&200) + 2)..(*first.min(&200) + 2 + *len as u32)).collect(),
            };
            match kind {
                0 => {
                    f.frames[0].push(new_palette(*first, ids.iter().map(|i| pal_entry([col(*i)[0], col(*i)[1], col(*i)[2], 255], None)).collect()));
                }
                1 => {
                    f.frames[0].push(Body::OldPalette04(old_palette(vec![(ids[0] as u8, ids.iter().map(|i| col(*i)).collect())])));
                }
                _ => {
                    let gap_start = ids[2];
                    f.frames[0].push(Body::OldPalette04(old_palette(vec![(0, vec![col(0), col(1)]), (gap_start as u8, ids[2..].iter().map(|i| col(*i)).collect())])));
                }
            }
            let Loaded::Ok(file) = load(&f.encode()) else {
                ctx.violation(Violation { family: "mapper-offset".into(), case: case(), sig: "palette-file-refused".into(), detail: "palette file did not load".into(), bytes: None, extra: json!({}) });
                return;
            };
            let pal = file.palette().unwrap();
            for (failure, tr) in [(254u8, Some(253u8)), (0, None)] {
                let mapper = PaletteMapper::new(pal, MappingOptions { failure, transparent: tr });
                let mut results = Vec::new();
                for i in &ids {
                    let c = col(*i);
                    let r = mapper.lookup(c[0], c[1], c[2], 255);
                    results.push(r);
                    let expect = if *i < 256 { *i as u8 } else { failure };
                    if r != expect {
                        ctx.violation(Violation { family: "mapper-offset".into(), case: case(), sig: "lookup:offset-palette".into(), detail: format!("colour of palette entry {} mapped to {} (expected {}), failure={}", i, r, expect, failure), bytes: Some(f.encode()), extra: json!({}) });
                    }
                }
                let r = mapper.lookup(1, 1, 1, 255);
                if r != failure {
                    ctx.violation(Violation { family: "mapper-offset".into(), case: case(), sig: "lookup:absent".into(), detail: format!("absent colour mapped to {} instead of the failure index {}", r, failure), bytes: Some(f.encode()), extra: json!({}) });
                }
                ctx.eval(ids.len() as u64 + 1);
                ctx.outcome(hash64(&results));
            }
        });
    }

    // ---- to_indexed_image
    if ctx.wants_family("to-indexed") {
        let mut sizes = Vec::new();
        for w in 1..=4u32 {
            for h in 1..=4u32 {
                sizes.push((w, h));
            }
        }
        ctx.family("to-indexed", sizes.len() as u64 * 2, "to_indexed_image on every w,h <= 4 with per-position distinct palette colours (plus one transparent and one absent pixel), two option sets", true);
        let mut f = gen::file(1, 1, &Fmt::Rgba, &[1]);
        f.frames[0].push(new_palette(0, (0..32u32).map(|i| pal_entry([i as u8 * 3 + 1, 200 - i as u8, i as u8 * 7, 255], None)).collect()));
        let Loaded::Ok(file) = load(&f.encode()) else { return 2 };
        let pal = file.palette().unwrap();
        for (w, h) in sizes {
            for (failure, tr) in [(31u8, Some(30u8)), (0, None)] {
                let case = || format!("{}x{} failure={} transparent={:?}", w, h, failure, tr);
                if !ctx.wants("to-indexed", &case) {
                    continue;
                }
                let mapper = PaletteMapper::new(pal, MappingOptions { failure, transparent: tr });
                let mut img = RgbaImage::new(w, h);
                let mut expect = Vec::new();
                for y in 0..h {
                    for x in 0..w {
                        let i = y * w + x + 1;
                        let (p, e) = if i == 3 {
                            ([1u8, 2, 3, 77], tr.unwrap_or(failure))
                        } else if i == 6 {
                            ([9u8, 9, 9, 255], failure)
                        } else {
                            ([i as u8 * 3 + 1, 200 - i as u8, i as u8 * 7, 255], i as u8)
                        };
                        img.put_pixel(x, y, image::Rgba(p));
                        expect.push(e);
                    }
                }
                let ((rw, rh), data) = to_indexed_image(img, &mapper);
                ctx.eval((w * h) as u64);
                ctx.outcome(hash64(&data));
                if (rw, rh) != (w, h) || data != expect {
                    ctx.violation(Violation { family: "to-indexed".into(), case: case(), sig: "to_indexed_image".into(), detail: format!("got {:?} {:?}, expected {:?} {:?}", (rw, rh), data, (w, h), expect), bytes: None, extra: json!({}) });
                }
            }
        }
    }
    // ---- to_indexed_image: every small image over a pixel alphabet
    if ctx.wants_family("to-indexed-all") {
        // alphabet: c1 and c2 opaque, c1 with alpha 254 / 0, an absent opaque colour, c2 with alpha 1
        let alpha: [[u8; 4]; 6] = [[4, 197, 21, 255], [7, 196, 28, 255], [4, 197, 21, 254], [4, 197, 21, 0], [9, 9, 9, 255], [7, 196, 28, 1]];
        let shapes: [(u32, u32); 7] = [(1, 1), (2, 1), (1, 2), (3, 1), (2, 2), (4, 1), (1, 4)];
        let mut f = gen::file(1, 1, &Fmt::Rgba, &[1]);
        f.frames[0].push(new_palette(0, (0..32u32).map(|i| pal_entry([i as u8 * 3 + 1, 200 - i as u8, i as u8 * 7, 255], None)).collect()));
        let Loaded::Ok(file) = load(&f.encode()) else { return 2 };
        let pal = file.palette().unwrap();
        let mut total = 0u64;
        for (w, h) in shapes {
            let n = (w * h) as usize;
            let imgs = product_vec(&vec![alpha.len(); n]);
            total += imgs.len() as u64 * 2;
            for (failure, tr) in [(31u8, Some(30u8)), (0, None)] {
                let mapper = PaletteMapper::new(pal, MappingOptions { failure, transparent: tr });
                for v in &imgs {
                    let case = || format!("{}x{} pixels={:?} failure={} transparent={:?}", w, h, v, failure, tr);
                    if !ctx.wants("to-indexed-all", &case) {
                        continue;
                    }
                    let mut img = RgbaImage::new(w, h);
                    let mut expect = Vec::new();
                    for (i, a) in v.iter().enumerate() {
                        let p = alpha[*a];
                        img.put_pixel(i as u32 % w, i as u32 / w, image::Rgba(p));
                        // the statement: one lookup result per pixel, in row-major order
                        expect.push(mapper.lookup(p[0], p[1], p[2], p[3]));
                    }
                    let ((rw, rh), data) = to_indexed_image(img, &mapper);
                    ctx.eval(n as u64);
                    ctx.outcome(hash64(&data));
                    if (rw, rh) != (w, h) || data != expect {
                        ctx.violation(Violation { family: "to-indexed-all".into(), case: case(), sig: "to_indexed_image-vs-lookup".into(), detail: format!("got {:?} {:?}, but lookup() per pixel gives {:?}", (rw, rh), data, expect), bytes: None, extra: json!({}) });
                    }
                }
            }
        }
        ctx.family("to-indexed-all", total, "to_indexed_image on EVERY image of shape 1x1, 2x1, 1x2, 3x1, 2x2, 4x1, 1x4 over a 6-pixel alphabet (two palette colours opaque, the first with alpha 254 and 0, the second with alpha 1, an absent colour), two option sets; result must be the dimensions and lookup() of each pixel in row-major order (lookup itself is decided by the `mapper` family)", true);
    }
    // ---- images whose backing buffer is larger than 4*w*h bytes (RgbaImage::from_raw allows it)
    if ctx.wants_family("oversized-backing") {
        let mut f = gen::file(1, 1, &Fmt::Rgba, &[1]);
        f.frames[0].push(new_palette(0, (0..32u32).map(|i| pal_entry([i as u8 * 3 + 1, 200 - i as u8, i as u8 * 7, 255], None)).collect()));
        let Loaded::Ok(file) = load(&f.encode()) else { return 2 };
        let pal = file.palette().unwrap();
        let m = if thorough { 12u32 } else { 6 };
        let mut cases: Vec<(u32, u32, usize)> = Vec::new();
        for w in 1..=m {
            for h in 1..=m {
                for extra in [1usize, 3, 4, 5, 4 * w as usize - 1, 4 * w as usize, 4 * w as usize + 4, 4 * (w as usize) * (h as usize), 4096] {
                    cases.push((w, h, extra));
                }
            }
        }
        cases.sort();
        cases.dedup();
        ctx.family("oversized-backing", cases.len() as u64 * 2, &format!("extrude_border and to_indexed_image on every (w,h) in [1,{}]^2 built with RgbaImage::from_raw over a buffer that is 1, 3, 4, 5, 4w-1, 4w, 4w+4, 4wh or 4096 bytes longer than 4wh (surplus bytes 0xEE): only the first 4wh bytes are the image", m), true);
        cases.par_iter().for_each(|(w, h, extra)| {
            let case = || format!("{}x{} surplus={}", w, h, extra);
            if !ctx.wants("oversized-backing", &case) {
                return;
            }
            let n = (*w * *h) as usize;
            // extrude: position codes
            let mut buf: Vec<u8> = Vec::with_capacity(4 * n + extra);
            for y in 0..*h {
                for x in 0..*w {
                    buf.extend_from_slice(&code(x, y));
                }
            }
            buf.extend(std::iter::repeat(0xEE).take(*extra));
            let img = RgbaImage::from_raw(*w, *h, buf).expect("buffer is large enough");
            let mut p = Vec::new();
            let out = guarded(&mut p, || "extrude_border".into(), || extrude_border(img));
            ctx.eval(((*w + 2) * (*h + 2)) as u64);
            match out {
                None => ctx.violation(Violation { family: "oversized-backing".into(), case: case(), sig: format!("panic:{}", sig_of(&p[0].1)), detail: format!("extrude_border panicked: {}", p[0].1), bytes: None, extra: json!({}) }),
                Some(out) => {
                    ctx.outcome(hash64(&(out.dimensions(), "extrude")));
                    let mut bad = None;
                    if out.dimensions() != (w + 2, h + 2) {
                        bad = Some(format!("result is {:?}, expected {}x{}", out.dimensions(), w + 2, h + 2));
                    } else {
                        'o: for y in 0..h + 2 {
                            for x in 0..w + 2 {
                                let sx = (x as i64 - 1).clamp(0, *w as i64 - 1) as u32;
                                let sy = (y as i64 - 1).clamp(0, *h as i64 - 1) as u32;
                                if out.get_pixel(x, y).0 != code(sx, sy) {
                                    bad = Some(format!("output pixel ({},{}) is not input pixel ({},{})", x, y, sx, sy));
                                    break 'o;
                                }
                            }
                        }
                    }
                    if let Some(b) = bad {
                        ctx.violation(Violation { family: "oversized-backing".into(), case: case(), sig: "extrude".into(), detail: b, bytes: None, extra: json!({}) });
                    }
                }
            }
            // to_indexed_image: palette colours per position
            let mut buf: Vec<u8> = Vec::with_capacity(4 * n + extra);
            let mut expect = Vec::new();
            for i in 0..n {
                let k = (i % 29) as u8 + 1;
                buf.extend_from_slice(&[k * 3 + 1, 200 - k, k * 7, 255]);
                expect.push(k);
            }
            buf.extend(std::iter::repeat(0xEE).take(*extra));
            let img = RgbaImage::from_raw(*w, *h, buf).expect("buffer is large enough");
            let mut p = Vec::new();
            let mapper = PaletteMapper::new(pal, MappingOptions { failure: 31, transparent: Some(30) });
            let r = guarded(&mut p, || "to_indexed_image".into(), || to_indexed_image(img, &mapper));
            ctx.eval(n as u64);
            match r {
                None => ctx.violation(Violation { family: "oversized-backing".into(), case: case(), sig: format!("panic:{}", sig_of(&p[0].1)), detail: format!("to_indexed_image panicked: {}", p[0].1), bytes: None, extra: json!({}) }),
                Some(((rw, rh), data)) => {
                    ctx.outcome(hash64(&(rw, rh, "indexed")));
                    if (rw, rh) != (*w, *h) || data != expect {
                        ctx.violation(Violation { family: "oversized-backing".into(), case: case(), sig: "to_indexed_image".into(), detail: format!("got {:?} and {} indices {:?}, expected {:?} and {} indices {:?}", (rw, rh), data.len(), &data[..data.len().min(12)], (w, h), expect.len(), &expect[..expect.len().min(12)]), bytes: None, extra: json!({}) });
                    }
                }
            }
        });
    }
    // ---- every opaque RGB colour against small palettes
    if ctx.wants_family("all-rgb") {
        let palettes: Vec<Vec<[u8; 3]>> = vec![
            vec![[0, 0, 0], [0x80, 0x80, 0x80], [255, 255, 255], [1, 2, 3], [200, 100, 50]],
            vec![[0x12, 0x34, 0x56], [0x56, 0x34, 0x12], [0xff, 0x00, 0xff], [0x7f, 0x7f, 0x7f], [0x00, 0xff, 0x00], [0xa8, 0x3c, 0xa8]],
        ];
        let pals: Vec<_> = if thorough { palettes.clone() } else { palettes[..1].to_vec() };
        ctx.family("all-rgb", pals.len() as u64 * (1u64 << 24), &format!("{} palette(s) of 5-6 colours: lookup of EVERY opaque 24-bit RGB colour (16,777,216 queries each): the entry's index for the palette's own colours, the failure index for every other colour", pals.len()), true);
        for (pi, pal) in pals.iter().enumerate() {
            let mut f = gen::file(1, 1, &Fmt::Rgba, &[1]);
            f.frames[0].push(new_palette(0, pal.iter().map(|c| pal_entry([c[0], c[1], c[2], 255], None)).collect()));
            let Loaded::Ok(file) = load(&f.encode()) else { return 2 };
            let p = file.palette().unwrap();
            let bad = std::sync::atomic::AtomicU64::new(0);
            (0..256u32).into_par_iter().for_each(|r| {
                // a mapper of its own per task: sharing one between the harness's threads would turn a racy
                // mapper into an unreproducible report here; sharing is explored by `mapper-schedules`
                let mapper = PaletteMapper::new(p, MappingOptions { failure: 77, transparent: Some(66) });
                for g in 0..256u32 {
                    for b in 0..256u32 {
                        let expect = pal.iter().position(|c| *c == [r as u8, g as u8, b as u8]).map(|i| i as u8).unwrap_or(77);
                        let got = mapper.lookup(r as u8, g as u8, b as u8, 255);
                        if got != expect && bad.fetch_add(1, std::sync::atomic::Ordering::Relaxed) < 4 {
                            let case = || format!("palette#{} colour ({},{},{})", pi, r, g, b);
                            ctx.violation(Violation { family: "all-rgb".into(), case: case(), sig: "lookup:all-rgb".into(), detail: format!("lookup({},{},{},255) = {}, expected {}", r, g, b, got, expect), bytes: None, extra: json!({}) });
                        }
                    }
                }
                ctx.eval_n(65536, 65536);
            });
            ctx.outcome(hash64(&(pi, bad.load(std::sync::atomic::Ordering::Relaxed))));
        }
    }
    // ---- one mapper shared by several threads: every interleaving of its own synchronisation operations
    if ctx.wants_family("mapper-schedules") {
        let fam = "mapper-schedules";
        let sx = crate::root().join("target/sx");
        let status = std::fs::read_to_string(sx.join("status")).unwrap_or_else(|_| "unavailable: not built (run through ./check)".into());
        let bin = crate::root().join("target/checked/mc-sx");
        if status.trim() != "ok" || !bin.is_file() {
            ctx.assume(format!("mapper-schedules NOT explored in this run: the shuttle-instrumented copy of the library could not be built ({})", status.trim()));
        } else {
            let mut cmd = std::process::Command::new(&bin);
            cmd.arg(if thorough { "thorough" } else { "quick" }).arg("--mapper");
            if let Some((f, c)) = &ctx.only {
                if f == fam {
                    cmd.arg("--case").arg(c);
                }
            }
            let out = match cmd.stderr(std::process::Stdio::null()).output() {
                Ok(o) => o,
                Err(e) => {
                    eprintln!("machinery error: cannot run {}: {}", bin.display(), e);
                    std::process::exit(2);
                }
            };
            let text = String::from_utf8_lossy(&out.stdout);
            let (mut schedules, mut configs, mut capped, mut skipped, mut done) = (0u64, 0u64, 0u64, 0u64, false);
            for l in text.lines() {
                let Ok(j) = serde_json::from_str::<serde_json::Value>(l) else { continue };
                if j.get("done").is_some() {
                    done = true;
                    continue;
                }
                if j.get("skipped").is_some() {
                    skipped += 1;
                    continue;
                }
                configs += 1;
                let n = j["schedules"].as_u64().unwrap_or(0);
                schedules += n;
                if j["capped"].as_bool().unwrap_or(false) {
                    capped += 1;
                }
                ctx.eval_n(n, n * j["calls"].as_u64().unwrap_or(1));
                ctx.outcome(hash64(&(j["threads"].as_u64(), n)));
                if let Some(b) = j["bad"].as_str() {
                    ctx.violation(Violation { family: fam.into(), case: j["case"].as_str().unwrap_or("").to_string(), sig: "schedule-dependent(sync):mapper".into(), detail: b.to_string(), bytes: None, extra: json!({"schedules_until_failure": n}) });
                }
            }
            if !done {
                eprintln!("machinery error: mc-sx --mapper did not finish (exit {:?})", out.status.code());
                std::process::exit(2);
            }
            ctx.family(fam, schedules, &format!("shuttle check_dfs (exhaustive) over {} thread configurations against the shuttle-instrumented copy of the library: one PaletteMapper shared by 2 threads x 2 lookups (all 625 colour assignments over 4 palette colours and one absent colour) and by 3 threads x 1 lookup (125); every lookup compared with the same lookup on a mapper of its own; {} configurations hit the cap, {} skipped after 12 failing ones", configs, capped, skipped), capped == 0 && skipped == 0);
        }
    }
    // ---- legacy palette chunks whose packets rewrite indices an earlier packet filled
    if ctx.wants_family("mapper-legacy-packets") {
        let cols: [[u8; 3]; 5] = [[10, 20, 30], [200, 100, 50], [1, 2, 3], [250, 250, 250], [8, 16, 24]];
        // packet lists: (skip, colour indices)
        let lists: Vec<Vec<(u8, Vec<usize>)>> = vec![
            vec![(0, vec![0, 1, 2]), (0, vec![3, 4])],
            vec![(0, vec![0, 1]), (0, vec![1, 0])],
            vec![(2, vec![0, 1, 2]), (0, vec![3])],
            vec![(0, vec![0, 1, 2, 3]), (1, vec![4]), (0, vec![0])],
            vec![(0, vec![0]), (0, vec![1]), (0, vec![2])],
            vec![(1, vec![0, 0, 1]), (0, vec![1, 2])],
        ];
        let cases: Vec<(usize, bool)> = (0..lists.len()).flat_map(|l| [false, true].into_iter().map(move |k11| (l, k11))).collect();
        ctx.family("mapper-legacy-packets", cases.len() as u64, "palettes from legacy 0x0004 / 0x0011 chunks with 2-3 packets that overlap or rewrite each other: every one of 5 colours (6-bit exact for 0x0011) and an absent colour looked up; the expected index is derived from the loaded palette itself (an index below 256 whose entry has that RGB, or the failure index when there is none)", true);
        for (li, k11) in cases {
            let case = || format!("packets#{} chunk={}", li, if k11 { "0x0011" } else { "0x0004" });
            if !ctx.wants("mapper-legacy-packets", &case) {
                continue;
            }
            let scale = |c: [u8; 3]| if k11 { [c[0] / 4, c[1] / 4, c[2] / 4] } else { c };
            let packets: Vec<(u8, Vec<[u8; 3]>)> = lists[li].iter().map(|(s, v)| (*s, v.iter().map(|i| scale(cols[*i])).collect())).collect();
            let mut f = gen::file(1, 1, &Fmt::Rgba, &[1]);
            f.frames[0].push(if k11 { Body::OldPalette11(old_palette(packets)) } else { Body::OldPalette04(old_palette(packets)) });
            let Loaded::Ok(file) = load(&f.encode()) else { return 2 };
            let Some(p) = file.palette() else { continue };
            let mapper = PaletteMapper::new(p, MappingOptions { failure: 99, transparent: Some(98) });
            let entries: Vec<(u32, [u8; 3])> = (0..300u32).filter_map(|i| p.color(i).map(|c| (i, [c.red(), c.green(), c.blue()]))).collect();
            let mut queries: Vec<[u8; 3]> = entries.iter().map(|e| e.1).collect();
            queries.extend(cols.iter().copied());
            queries.push([77, 66, 55]);
            for q in queries {
                let ok: Vec<u8> = entries.iter().filter(|e| e.1 == q && e.0 < 256).map(|e| e.0 as u8).collect();
                let got = mapper.lookup(q[0], q[1], q[2], 255);
                ctx.eval(1);
                ctx.outcome(hash64(&(li, k11, q, got)));
                let fine = if ok.is_empty() { got == 99 } else { ok.contains(&got) };
                if !fine {
                    ctx.violation(Violation { family: "mapper-legacy-packets".into(), case: case(), sig: "lookup:legacy-packets".into(), detail: format!("lookup{:?} = {}, acceptable: {:?} (failure index 99 when empty); palette {:?}", q, got, ok, entries), bytes: Some(f.encode()), extra: json!({}) });
                }
            }
        }
    }
    ctx.note("built with asefile's `utils` feature on; the repository's own suite runs with it off (MANIFEST.hooks.baseline_off_cmd)");
    ctx.finish()
}
