//! C15 — documented-unsupported features are refused, not silently ignored.
use crate::props::c11::expect_err_class;
use mc_core::ase::*;
use mc_core::explore::*;
use mc_core::gen::{self, *};
use mc_core::sem::Fmt;
use rayon::prelude::*;
use serde_json::json;

pub fn run(ctx: &Ctx) -> i32 {
    let thorough = ctx.tier == Tier::Thorough;
    let mut bases: Vec<(String, File)> = gen::bases().into_iter().map(|(n, f)| (n.to_string(), f)).collect();
    bases.push(("d1".into(), gen::d1(&Fmt::Rgba)));
    if thorough {
        bases.push(("d1g".into(), gen::d1(&Fmt::Gray)));
        bases.push(("d1i".into(), gen::d1(&Fmt::Indexed(4))));
    }
    // the header's flag word cleared (bit 0 = "layer opacity valid"), layer opacities below 255
    {
        let mut f = gen::b2();
        f.header.flags = 0;
        let mut k = 0u8;
        for fr in f.frames.iter_mut() {
            for c in fr.chunks.iter_mut() {
                if let Body::Layer(l) = &mut c.body {
                    l.opacity = 200 - 40 * (k % 3);
                    k += 1;
                }
            }
        }
        bases.push(("b2-header-flags-0".into(), f));
    }
    // cels whose bytes repeat an earlier cel of the file (a decoder that reuses earlier results must still look at the type)
    {
        let fmt = Fmt::Rgba;
        let mut f = gen::file(3, 3, &fmt, &[10, 20, 30]);
        f.frames[0].push(Body::Tileset(tileset(0, 2, 1, 1, tile_pixels(&fmt, 2, 1, 1, 2, (0, 0)), "t")));
        f.frames[0].push(Body::Layer(Layer::image("a")));
        f.frames[0].push(Body::Layer(Layer::image("b")));
        f.frames[0].push(Body::Layer(Layer::tilemap("m", 0)));
        for fr in 0..3usize {
            f.frames[fr].push(raw_cel(0, 0, 0, 255, 2, 2, pixels(&fmt, 2, 2, 1, (0, 0))));
            f.frames[fr].push(zcel(1, 1, 1, 200, 2, 2, pixels(&fmt, 2, 2, 1, (0, 0)), 6));
            f.frames[fr].push(tm_cel(2, 0, 0, 255, 1, 1, vec![1]));
        }
        bases.push(("repeated-cels".into(), f));
    }
    // degenerate entities: layers without cels, a group, tilemap cels without tiles, a one-frame tag
    {
        let fmt = Fmt::Rgba;
        let mut f = gen::file(2, 2, &fmt, &[10, 20]);
        f.frames[0].push(Body::Tileset(tileset(0, 1, 1, 1, vec![0; 4], "t")));
        f.frames[0].push(Body::Layer(Layer::image("no-cels")));
        f.frames[0].push(Body::Layer(Layer::group("g")));
        let mut child = Layer::image("child-no-cels");
        child.level = 1;
        f.frames[0].push(Body::Layer(child));
        f.frames[0].push(Body::Layer(Layer::tilemap("m0", 0)));
        f.frames[0].push(Body::Layer(Layer::tilemap("m1", 0)));
        f.frames[0].push(tags(vec![Tag::new("one", 1, 1, 0)]));
        f.frames[0].push(tm_cel(3, 0, 0, 255, 0, 0, vec![]));
        f.frames[0].push(tm_cel(4, 0, 0, 255, 0, 2, vec![]));
        f.frames[1].push(tm_cel(3, 0, 0, 255, 3, 0, vec![]));
        f.frames[1].push(raw_cel(0, 0, 0, 255, 1, 1, vec![0, 0, 0, 0]));
        bases.push(("degenerate".into(), f));
    }
    for (bn, b) in &bases {
        if !matches!(crate::common::load(&b.encode()), crate::common::Loaded::Ok(_)) {
            eprintln!("machinery error: C15 base {} does not load", bn);
            return 2;
        }
    }
    let all16: Vec<u16> = (0..=65535).collect();

    // pixel aspect ratio: every pair with pw != ph, both non-zero
    if ctx.wants_family("pixel-ratio") {
        ctx.family("pixel-ratio", bases.len() as u64 * 255 * 254, "pixel ratio (pw,ph) for all 255x254 pairs with pw != ph, both non-zero, on every base", true);
        for (bn, base) in &bases {
            (1..=255u8).into_par_iter().for_each(|pw| {
                for ph in 1..=255u8 {
                    if pw == ph {
                        continue;
                    }
                    let case = || format!("{} ratio {}:{}", bn, pw, ph);
                    let mut f = base.clone();
                    f.header.pixel_w = pw;
                    f.header.pixel_h = ph;
                    expect_err_class(ctx, "pixel-ratio", &case, &f.encode(), "the pixel aspect ratio is not 1:1", hash64(&("ratio", bn, pw.min(ph) == 1, pw > ph)));
                }
            });
        }
    }

    // colour profile: ICC type and fixed-gamma flag at every chunk boundary of every frame
    if ctx.wants_family("color-profile") {
        let kinds: Vec<(u16, u16, Option<Vec<u8>>)> = vec![
            (2, 0, Some(vec![1, 2, 3, 4, 5, 6, 7, 8])),
            (2, 0, Some(vec![])),
            (2, 0, None),
            (0, 1, None),
            (1, 1, None),
            (2, 1, Some(vec![9; 4])),
            (1, 0xFFFF, None),
            (0, 3, None),
        ];
        let mut n = 0u64;
        for (bn, base) in &bases {
            let mut cases = Vec::new();
            for (fi, fr) in base.frames.iter().enumerate() {
                for pos in 0..=fr.chunks.len() {
                    for k in 0..kinds.len() {
                        cases.push((fi, pos, k));
                    }
                }
            }
            n += cases.len() as u64;
            cases.par_iter().for_each(|(fi, pos, k)| {
                let case = || format!("{} profile kind#{} at frame {} position {}", bn, k, fi, pos);
                let mut f = base.clone();
                // replace an existing profile chunk's meaning by inserting the unsupported one
                let (ty, flags, icc) = kinds[*k].clone();
                // gamma field: 2.2, exactly 1.0 (the identity curve), 0 and the maximum, rotating with the position
                let gamma = [0x0002_3333u32, 0x0001_0000, 0, 0xFFFF_FFFF][(*pos + *fi) % 4];
                f.frames[*fi].chunks.insert(*pos, Chunk::new(Body::ColorProfile(ColorProfile { ty, flags, gamma, reserved: [0; 8], icc })));
                expect_err_class(ctx, "color-profile", &case, &f.encode(), "the file carries an embedded ICC profile or the fixed-gamma flag", hash64(&("profile", bn, fi, pos, k)));
            });
        }
        ctx.family("color-profile", n, "colour profile chunk of type ICC (with payload / empty payload / no payload field) or with the fixed-gamma flag on type none/sRGB/ICC (gamma 2.2 / exactly 1.0 / 0 / maximum), inserted at every chunk boundary of every frame of every base", true);
    }

    // enum sweeps
    let sweep16 = |fam: &str, what: &str, why: &str, allowed: &(dyn Fn(u16) -> bool + Sync), count: &(dyn Fn(&File) -> usize + Sync), set: &(dyn Fn(&mut File, usize, u16) + Sync)| {
        if !ctx.wants_family(fam) {
            return;
        }
        let mut total = 0u64;
        for (bn, base) in &bases {
            let n = count(base);
            for i in 0..n {
                total += all16.iter().filter(|v| !allowed(**v)).count() as u64;
                all16.par_iter().for_each(|v| {
                    if allowed(*v) {
                        return;
                    }
                    let case = || format!("{} {}[{}]={}", bn, fam, i, v);
                    if !ctx.wants(fam, &case) {
                        return;
                    }
                    let mut f = base.clone();
                    set(&mut f, i, *v);
                    expect_err_class(ctx, fam, &case, &f.encode(), why, hash64(&(fam, bn, i)));
                });
            }
        }
        ctx.family(fam, total, what, true);
    };
    sweep16("color-depth", "header colour depth over all u16 values except 8/16/32, every base", "the colour depth is not 8, 16 or 32", &|v| v == 8 || v == 16 || v == 32, &|_| 1, &|f, _, v| f.header.depth = v);
    sweep16("layer-type", "layer type over all u16 values except 0/1/2 on every layer of every base", "a layer has an unknown type", &|v| v <= 2, &|f| count_kind(f, "layer"), &|f, i, v| {
        let l = layer_mut(f, i);
        l.force_tileset_field = Some(l.ty == 2);
        l.ty = v;
    });
    sweep16("blend-mode", "blend mode over all u16 values except 0..18 on every layer of every base", "a layer has an unknown blend mode", &|v| v <= 18, &|f| count_kind(f, "layer"), &|f, i, v| layer_mut(f, i).blend = v);
    sweep16("cel-type", "cel type over all u16 values except 0..3 on every cel of every base", "a cel has an unknown type", &|v| v <= 3, &|f| count_kind(f, "cel"), &|f, i, v| cel_mut(f, i).ty = Some(v));
    sweep16(
        "tilemap-bits",
        "bits-per-tile over all u16 values except 32 on every tilemap cel of every base (payload re-encoded with 8/16-bit tiles for 8/16)",
        "a tilemap cel uses other than 32 bits per tile",
        &|v| v == 32,
        &|f| f.frames.iter().flat_map(|fr| fr.chunks.iter()).filter(|c| matches!(&c.body, Body::Cel(Cel { body: CelBody::Tilemap { .. }, .. }))).count(),
        &|f, i, v| {
            let mut k = 0;
            for fr in f.frames.iter_mut() {
                for ch in fr.chunks.iter_mut() {
                    if let Body::Cel(Cel { body: CelBody::Tilemap { bits, tiles, tile_bytes_override, .. }, .. }) = &mut ch.body {
                        if k == i {
                            *bits = v;
                            if v == 8 {
                                *tile_bytes_override = Some(tiles.iter().map(|t| *t as u8).collect());
                            } else if v == 16 {
                                *tile_bytes_override = Some(tiles.iter().flat_map(|t| (*t as u16).to_le_bytes()).collect());
                            }
                        }
                        k += 1;
                    }
                }
            }
        },
    );

    // animation direction: all u8 except 0..2 on every tag
    if ctx.wants_family("anim-direction") {
        let mut total = 0u64;
        for (bn, base) in &bases {
            let ntags: usize = base.frames.iter().flat_map(|fr| fr.chunks.iter()).map(|c| if let Body::Tags(t) = &c.body { t.tags.len() } else { 0 }).sum();
            for t in 0..ntags {
                for d in 3..=255u8 {
                    total += 1;
                    let case = || format!("{} tag[{}].direction={}", bn, t, d);
                    let mut f = base.clone();
                    tags_mut(&mut f, 0).tags[t].dir = d;
                    expect_err_class(ctx, "anim-direction", &case, &f.encode(), "a tag has an unknown animation direction", hash64(&("dir", bn, t)));
                }
            }
        }
        // a tags chunk in a later frame (decoded, then ignored): an unknown direction there is refused as well
        for (bn, base) in &bases {
            for fi in 1..base.frames.len() {
                let mut ok = base.clone();
                ok.frames[fi].push(tags(vec![Tag::new("late", 0, 0, 1), Tag::new("later", 0, 0, 2)]));
                if !matches!(crate::common::load(&ok.encode()), crate::common::Loaded::Ok(_)) {
                    ctx.note(format!("{}: a tags chunk in frame {} is refused as such; not swept", bn, fi));
                    continue;
                }
                for t in 0..2usize {
                    for d in 3..=255u8 {
                        total += 1;
                        let case = || format!("{} tags chunk in frame {} tag[{}].direction={}", bn, fi, t, d);
                        let mut f = ok.clone();
                        if let Some(Chunk { body: Body::Tags(tg), .. }) = f.frames[fi].chunks.last_mut() {
                            tg.tags[t].dir = d;
                        }
                        expect_err_class(ctx, "anim-direction", &case, &f.encode(), "a tag (in a tags chunk of a later frame) has an unknown animation direction", hash64(&("dir-late", bn, fi, t)));
                    }
                }
            }
        }
        ctx.family("anim-direction", total, "animation direction over all u8 values except 0..2 on every tag of every base, and on both tags of a tags chunk appended to each later frame", true);
    }

    // tilesets whose pixels are not embedded
    if ctx.wants_family("external-tileset") {
        let mut total = 0u64;
        for (bn, base) in &bases {
            let n = count_kind(base, "tileset");
            for i in 0..n {
                for flags in [0u32, 1, 4, 5, 0xFFFF_FFFD, 0x8000_0000, 8] {
                    total += 1;
                    let case = || format!("{} tileset[{}].flags={:#x}", bn, i, flags);
                    let mut f = base.clone();
                    let ts = tileset_mut(&mut f, i);
                    ts.flags = flags;
                    ts.ext_file = 1;
                    ts.ext_tileset = 0;
                    expect_err_class(ctx, "external-tileset", &case, &f.encode(), "a tileset's pixels are not embedded in the file", hash64(&("ext", bn, i, flags)));
                }
            }
        }
        ctx.family("external-tileset", total, "every tileset of every base with the 'tiles embedded' flag bit cleared (flags 0, 1, 4, 5, all-but-bit-1, high bits), with and without an external-file reference", true);
    }
    ctx.sample(json!({"family": "layer-type", "case": "b1 layer-type[1]=3", "meaning": "base b1 with the type field of layer 1 set to 3: load must return an error"}));
    ctx.set_rule("Exhaustive enumeration (no sampling) of every value of each unsupported-feature switch at every position where it can occur in each base sprite; evaluations = files generated and loaded; distinct_nontrivial = distinct (feature family, base sprite, entity / position altered, error variant returned) classes, counted by the machinery; a case is non-trivial when the altered file differs from a loadable base in exactly that one feature.");
    ctx.note("pixel ratios pw = ph > 1 are 1:1 ratios the library happens to refuse; claimed neither here nor in C07");
    ctx.finish()
}
