//! C12 — memory used while loading is bounded by the bytes actually supplied.
//! Measured by the worker's counting allocator between entry to and return from
//! AsepriteFile::read; the hard budget is the property's bound itself.
use crate::props::faults::*;
use crate::worker::{self, Pool, Status, TaskResult};
use mc_core::ase::*;
use mc_core::explore::*;
use mc_core::gen::{self, *};
use mc_core::sem::Fmt;
use serde_json::json;
use std::sync::atomic::{AtomicU64, Ordering::Relaxed};
use std::sync::Arc;

pub fn bound(len: usize) -> u64 {
    64 * 1024 * 1024 + 8192 * len as u64
}

fn larger_values(f: &Field, cur: u64) -> Vec<u64> {
    let all: Vec<u64> = match f.width {
        1 => (0..256).collect(),
        2 => b16().into_iter().map(|v| v as u64).collect(),
        _ => b32().into_iter().map(|v| v as u64).collect(),
    };
    all.into_iter().filter(|v| *v > cur).collect()
}

fn read_field(b: &[u8], f: &Field) -> u64 {
    let mut v = 0u64;
    for k in 0..f.width as usize {
        v |= (b[f.offset + k] as u64) << (8 * k);
    }
    v
}

fn patchv(bytes: &[u8], f: &Field, v: u64) -> Vec<u8> {
    let mut b = bytes.to_vec();
    for k in 0..f.width as usize {
        b[f.offset + k] = (v >> (8 * k)) as u8;
    }
    b
}

fn inflate_family(bases: &[Based]) -> InputFam {
    // lazily generated: (base, field i, value, optional (field j, value))
    let mut idx: Vec<(u16, u16, u64, Option<(u16, u64)>)> = Vec::new();
    let mut all: Vec<(String, Arc<Vec<u8>>, Arc<Vec<Field>>)> = Vec::new();
    for (bi, b) in bases.iter().enumerate() {
        let sized: Vec<Field> = b.fields.iter().filter(|f| matches!(f.role, Role::Size | Role::Count | Role::Index | Role::StrLen)).cloned().collect();
        for (i, f) in sized.iter().enumerate() {
            for x in larger_values(f, read_field(&b.bytes, f)) {
                idx.push((bi as u16, i as u16, x, None));
            }
        }
        // pairs of size/count fields at {type max, half of it, a mid value}; not for bases above 100 KB
        if b.bytes.len() <= 100_000 {
            let tops = |f: &Field| -> Vec<u64> {
                let m = if f.width == 1 { 255u64 } else if f.width == 2 { 65535 } else { 0xFFFF_FFFF };
                vec![m, m / 2 + 1, 4096.min(m)]
            };
            for i in 0..sized.len() {
                for j in i + 1..sized.len() {
                    for a in tops(&sized[i]) {
                        for c in tops(&sized[j]) {
                            idx.push((bi as u16, i as u16, a, Some((j as u16, c))));
                        }
                    }
                }
            }
        }
        all.push((b.name.clone(), Arc::new(b.bytes.clone()), Arc::new(sized)));
    }
    let idx = Arc::new(idx);
    let all = Arc::new(all);
    let (i2, a2) = (idx.clone(), all.clone());
    let (i3, a3) = (idx.clone(), all.clone());
    InputFam {
        name: "inflate-declared".into(),
        what: "b1..b4, D1 (indexed) and `big`: every size / count / index / string-length field set to every larger value of its boundary alphabet up to the type maximum, one at a time, and (bases below 100 KB) all pairs of such fields at {max, max/2+1, 4096}".into(),
        n: idx.len(),
        gen: Box::new(move |k| {
            let (bi, i, x, second) = i2[k];
            let (_, bytes, sized) = &a2[bi as usize];
            let mut v = patchv(bytes, &sized[i as usize], x);
            if let Some((j, c)) = second {
                v = patchv(&v, &sized[j as usize], c);
            }
            v
        }),
        label: Box::new(move |k| {
            let (bi, i, x, second) = i3[k];
            let (name, _, sized) = &a3[bi as usize];
            match second {
                None => format!("{} {}={}", name, sized[i as usize].label(), x),
                Some((j, c)) => format!("{} {}={} {}={}", name, sized[i as usize].label(), x, sized[j as usize].label(), c),
            }
        }),
    }
}


/// all size / count fields of two entities (the file header, or one chunk) inflated together
fn entity_pairs(bases: &[Based]) -> InputFam {
    let mut idx: Vec<(u16, u32, u32, u32, u32, u8)> = Vec::new(); // base, (frame,chunk) a, (frame,chunk) b, value kind
    let mut all: Vec<(String, Arc<Vec<u8>>, Arc<Vec<Field>>)> = Vec::new();
    for (bi, b) in bases.iter().enumerate() {
        if b.bytes.len() > 100_000 {
            all.push((b.name.clone(), Arc::new(vec![]), Arc::new(vec![])));
            continue;
        }
        let sized: Vec<Field> = b.fields.iter().filter(|f| matches!(f.role, Role::Size | Role::Count) && f.name != "file_size" && f.name != "frame_size" && f.name != "chunk_size" && f.name != "frames" && f.name != "old_chunks" && f.name != "new_chunks").cloned().collect();
        let mut ents: Vec<(u32, u32)> = sized.iter().map(|f| (f.frame, f.chunk)).collect();
        ents.sort();
        ents.dedup();
        for i in 0..ents.len() {
            for j in i..ents.len() {
                for kind in 0..3u8 {
                    idx.push((bi as u16, ents[i].0, ents[i].1, ents[j].0, ents[j].1, kind));
                }
            }
        }
        all.push((b.name.clone(), Arc::new(b.bytes.clone()), Arc::new(sized)));
    }
    let idx = Arc::new(idx);
    let all = Arc::new(all);
    let (i2, a2) = (idx.clone(), all.clone());
    let (i3, a3) = (idx.clone(), all.clone());
    let value = |f: &Field, kind: u8| -> u64 {
        let m = if f.width == 1 { 255u64 } else if f.width == 2 { 65535 } else { 0xFFFF_FFFF };
        match kind {
            0 => m,
            1 => 16384.min(m),
            _ => m / 2 + 1,
        }
    };
    let ent_name = |e: (u32, u32)| if e.0 == u32::MAX { "header".to_string() } else { format!("frame[{}].chunk[{}]", e.0, e.1) };
    InputFam {
        name: "inflate-entities".into(),
        what: "b1..b4 and D1 (indexed): for every entity (the file header, or one chunk) and every pair of entities, ALL size and count fields of those entities set together to the type maximum / 16384 / max/2+1 (e.g. canvas width and height and a cel's width and height at once), payloads unchanged".into(),
        n: idx.len(),
        gen: Box::new(move |k| {
            let (bi, af, ac, bf, bc, kind) = i2[k];
            let (_, bytes, sized) = &a2[bi as usize];
            let mut v = bytes.to_vec();
            for f in sized.iter().filter(|f| (f.frame, f.chunk) == (af, ac) || (f.frame, f.chunk) == (bf, bc)) {
                v = patchv(&v, f, value(f, kind));
            }
            v
        }),
        label: Box::new(move |k| {
            let (bi, af, ac, bf, bc, kind) = i3[k];
            format!("{} all sizes of {} and {} := {}", a3[bi as usize].0, ent_name((af, ac)), ent_name((bf, bc)), ["max", "16384", "max/2+1"][kind as usize])
        }),
    }
}


/// a large honest payload followed by something that makes the load fail: error paths must stay inside
/// the bound too (an error value that carries the decoded data, a Debug dump in a message ...)
fn large_then_error() -> InputFam {
    let fmts = [Fmt::Rgba, Fmt::Gray, Fmt::Indexed(0)];
    let faults = ["the same cel chunk again", "a second cel on a layer that does not exist", "a layer with blend mode 99 after it", "a cel of unknown type after it", "a chunk header declaring more bytes than follow", "a linked cel pointing at a missing frame", "an indexed pixel outside the palette / nothing (control)"];
    let carriers = ["image cel", "tilemap cel", "tileset"];
    let mut cases: Vec<(usize, usize, usize)> = Vec::new();
    for a in 0..fmts.len() {
        for c in 0..carriers.len() {
            for b in 0..faults.len() {
                cases.push((a, c, b));
            }
        }
    }
    let cases = Arc::new(cases);
    let c2 = cases.clone();
    InputFam {
        name: "large-then-error".into(),
        what: "3 pixel formats x {image cel, tilemap cel, tileset} holding 32 MiB of zeros (about 33 KB compressed, honest declared size) x 7 ways to make the load fail afterwards (the same chunk again, a cel on a missing layer, an unknown blend mode, an unknown cel type, a chunk size beyond the input, a link to a missing frame, a control)".into(),
        n: cases.len(),
        gen: Box::new(move |i| {
            let (a, c, b) = cases[i];
            let fmt = &fmts[a];
            let n = 32usize << 20;
            let z = Zlib::Verbatim(zlib(&vec![0u8; n], 9));
            let px = n / fmt.bpp();
            let (w, h) = (4096u16, (px / 4096) as u16);
            let mut f = gen::file(4, 4, fmt, &[1, 1]);
            if matches!(fmt, Fmt::Indexed(_)) {
                f.frames[0].push(new_palette(0, pal_entries(4, 1)));
            }
            f.frames[0].push(Body::Tileset(tileset(0, 1, 1, 1, vec![0; fmt.bpp()], "t")));
            f.frames[0].push(Body::Layer(Layer::image("l")));
            f.frames[0].push(Body::Layer(Layer::tilemap("m", 0)));
            let big: Body = match c {
                0 => Body::Cel(Cel::new(0, 0, 0, 255, CelBody::Compressed { w, h, data: vec![], z })),
                1 => {
                    let mut cel = tm_cel(1, 0, 0, 255, 2048, 4096, vec![]);
                    if let Body::Cel(cc) = &mut cel {
                        if let CelBody::Tilemap { z: zz, .. } = &mut cc.body {
                            *zz = z;
                        }
                    }
                    cel
                }
                _ => {
                    let mut ts = tileset(9, (px / (256 * 256)) as u32, 256, 256, vec![], "big");
                    ts.z = z;
                    Body::Tileset(ts)
                }
            };
            f.frames[0].push(big.clone());
            match b {
                0 => {
                    f.frames[0].push(big);
                }
                1 => {
                    f.frames[0].push(raw_cel(7, 0, 0, 255, 1, 1, vec![0; fmt.bpp()]));
                }
                2 => {
                    let mut l = Layer::image("bad");
                    l.blend = 99;
                    f.frames[0].push(Body::Layer(l));
                }
                3 => {
                    let mut cel = Cel::new(0, 0, 0, 255, CelBody::Other { data: vec![1, 2, 3, 4] });
                    cel.ty = Some(9);
                    f.frames[1].push(Body::Cel(cel));
                }
                4 => {
                    f.frames[1].push(Body::Path);
                    f.frames[1].chunks[0].size = Some(0x00ff_ffff);
                }
                5 => {
                    f.frames[1].push(link_cel(0, 0, 0, 255, 9));
                }
                _ => {
                    if matches!(fmt, Fmt::Indexed(_)) {
                        f.frames[1].push(raw_cel(0, 0, 0, 255, 1, 1, vec![200]));
                    }
                }
            }
            f.encode()
        }),
        label: Box::new(move |i| {
            let (a, c, b) = c2[i];
            format!("{} 32 MiB {} then {}", ["rgba", "gray", "indexed"][a], carriers[c], faults[b])
        }),
    }
}


/// many tags that each span the whole 16-bit frame range (the range fields are not sizes: nothing may be
/// reserved per frame of a range)
fn wide_tags() -> InputFam {
    let shapes: Vec<(usize, u8, bool)> = vec![(200, 0, false), (600, 2, false), (2000, 2, false), (2000, 1, true), (65535, 2, false)];
    let shapes = Arc::new(shapes);
    let s2 = shapes.clone();
    InputFam {
        name: "wide-tags".into(),
        what: "one tags chunk with 200 / 600 / 2000 / 65535 tags each spanning frames 0..=65535 (forward / reverse / ping-pong), in a file with 1 frame or with 65535 frames".into(),
        n: shapes.len(),
        gen: Box::new(move |i| {
            let (n, dir, many_frames) = shapes[i];
            let mut f = gen::file(2, 2, &Fmt::Rgba, &vec![1u16; if many_frames { 65535 } else { 1 }]);
            f.frames[0].push(tags((0..n).map(|k| Tag { repeat: (k % 5) as u16, ..Tag::new("t", 0, 65535, dir) }).collect()));
            f.encode()
        }),
        label: Box::new(move |i| format!("{} tags 0..=65535 dir={} frames={}", s2[i].0, s2[i].1, if s2[i].2 { 65535 } else { 1 })),
    }
}

fn bombs(thorough: bool) -> InputFam {
    let mut makers: Vec<(String, Box<dyn Fn() -> Vec<u8> + Sync + Send>)> = Vec::new();
    let sizes: Vec<usize> = if thorough { vec![1 << 20, 16 << 20, 64 << 20, 512 << 20] } else { vec![1 << 20, 16 << 20, 64 << 20] };
    for sz in sizes {
        for carrier in 0..3 {
            for honest in [false, true] {
                let label = format!("{} MiB of zeros in a {} {}", sz >> 20, ["compressed cel", "tilemap cel", "tileset"][carrier], if honest { "with honest declared size" } else { "behind a 1x1 declared size" });
                makers.push((
                    label,
                    Box::new(move || {
                        let fmt = Fmt::Rgba;
                        let zeros = vec![0u8; sz];
                        let z = Zlib::Verbatim(zlib(&zeros, 9));
                        let mut f = gen::file(4, 4, &fmt, &[1]);
                        // honest dimensions: sz bytes = w*h*4 (cel) or w*h*4 (tiles)
                        let n = sz / 4;
                        let (w, h) = if honest { ((n.min(32768)) as u16, (n / n.min(32768)) as u16) } else { (1u16, 1u16) };
                        match carrier {
                            0 => {
                                f.frames[0].push(Body::Layer(Layer::image("l")));
                                f.frames[0].push(Body::Cel(Cel::new(0, 0, 0, 255, CelBody::Compressed { w, h, data: vec![], z })));
                            }
                            1 => {
                                f.frames[0].push(Body::Tileset(tileset(0, 1, 1, 1, vec![0; 4], "t")));
                                f.frames[0].push(Body::Layer(Layer::tilemap("l", 0)));
                                if let Body::Cel(mut c) = tm_cel(0, 0, 0, 255, w, h, vec![]) {
                                    if let CelBody::Tilemap { z: zz, .. } = &mut c.body {
                                        *zz = z;
                                    }
                                    f.frames[0].push(Body::Cel(c));
                                }
                            }
                            _ => {
                                let mut ts = tileset(0, if honest { h as u32 } else { 1 }, w, 1, vec![], "t");
                                ts.z = z;
                                f.frames[0].push(Body::Tileset(ts));
                            }
                        }
                        f.encode()
                    }),
                ));
            }
        }
    }
    let makers = Arc::new(makers);
    let m2 = makers.clone();
    InputFam { name: "deflate-bombs".into(), what: "cel, tilemap and tileset payloads that inflate to 1/16/64 (thorough: 512) MiB of zeros, behind a 1x1 declared size and behind an honest declared size".into(), n: makers.len(), gen: Box::new(move |i| (makers[i].1)()), label: Box::new(move |i| m2[i].0.clone()) }
}

fn dense(thorough: bool) -> InputFam {
    let mut shapes: Vec<(usize, usize)> = vec![(100, 100), (1000, 1000), (2000, 2000), (65535, 2), (2, 65535), (4000, 4000)];
    if thorough {
        shapes.extend([(8000, 8000), (12000, 12000), (65535, 1000), (1000, 65535)]);
    }
    let shapes = Arc::new(shapes);
    let s2 = shapes.clone();
    InputFam {
        name: "dense-cel-table".into(),
        what: "F frames x L layers with exactly one cel per frame, on the top layer (the frame-by-layer cel table): (F,L) in {(100,100),(1000,1000),(2000,2000),(4000,4000),(65535,2),(2,65535)} (thorough: + (8000,8000),(12000,12000),(65535,1000),(1000,65535)); also with no layer chunks at all (cel layer index only)".into(),
        n: shapes.len() * 2,
        gen: Box::new(move |i| {
            let (nf, nl) = shapes[i / 2];
            let with_layers = i % 2 == 0;
            let mut f = gen::file(2, 2, &Fmt::Rgba, &vec![1u16; nf]);
            if with_layers {
                for _ in 0..nl {
                    f.frames[0].push(Body::Layer(Layer::image("")));
                }
            }
            for k in 0..nf {
                f.frames[k].push(raw_cel((nl - 1) as u16, 0, 0, 255, 1, 1, vec![1, 2, 3, 255]));
            }
            f.encode()
        }),
        label: Box::new(move |i| format!("frames={} layers={} layer_chunks={}", s2[i / 2].0, s2[i / 2].1, i % 2 == 0)),
    }
}

/// well-formed: one large, highly compressible cel (image / tilemap) and F linked cels pointing at it
fn links_to_big(thorough: bool) -> InputFam {
    let mut shapes: Vec<(usize, usize, u16)> = Vec::new();
    for kind in 0..2usize {
        for f in [10usize, 100, 1000] {
            for side in [512u16, 1024] {
                shapes.push((kind, f, side));
            }
        }
        if thorough {
            shapes.push((kind, 10000, 1024));
            shapes.push((kind, 65534, 512));
        }
    }
    let shapes = Arc::new(shapes);
    let s2 = shapes.clone();
    InputFam {
        name: "links-to-big".into(),
        what: "well-formed files: one side x side cel of zeros (image cel / tilemap cel, compressed to a few KB) in frame 0 and F frames each holding one linked cel that points at it, F in {10,100,1000} (thorough: 10000, 65534), side in {512,1024}".into(),
        n: shapes.len(),
        gen: Box::new(move |i| {
            let (kind, nf, side) = shapes[i];
            let fmt = Fmt::Rgba;
            let mut f = gen::file(4, 4, &fmt, &vec![1u16; nf + 1]);
            if kind == 0 {
                f.frames[0].push(Body::Layer(Layer::image("l")));
                f.frames[0].push(zcel(0, 0, 0, 255, side, side, vec![0u8; side as usize * side as usize * 4], 9));
            } else {
                f.frames[0].push(Body::Tileset(tileset(0, 1, 1, 1, vec![0; 4], "t")));
                f.frames[0].push(Body::Layer(Layer::tilemap("l", 0)));
                let mut c = tm_cel(0, 0, 0, 255, side, side, vec![0; side as usize * side as usize]);
                if let Body::Cel(cc) = &mut c {
                    if let CelBody::Tilemap { z, .. } = &mut cc.body {
                        *z = Zlib::Level(9);
                    }
                }
                f.frames[0].push(c);
            }
            for k in 1..=nf {
                f.frames[k].push(link_cel(0, 0, 0, 255, 0));
            }
            f.encode()
        }),
        label: Box::new(move |i| format!("kind={} links={} side={}", ["image", "tilemap"][s2[i].0], s2[i].1, s2[i].2)),
    }
}


/// files for the cross-load family: honest files with one large decoded payload, and tiny
/// files that merely declare a large size
pub fn cross_load_files() -> (Vec<(String, Vec<u8>)>, Vec<(String, Vec<u8>)>) {
    let fmt = Fmt::Rgba;
    let mut honest: Vec<(String, Vec<u8>)> = Vec::new();
    {
        let side = 4600u16; // 4600 x 4600 x 4 = 84.6 MB decoded
        let mut f = gen::file(4, 4, &fmt, &[1]);
        f.frames[0].push(Body::Layer(Layer::image("l")));
        f.frames[0].push(Body::Cel(Cel::new(0, 0, 0, 255, CelBody::Compressed { w: side, h: side, data: vec![], z: Zlib::Verbatim(zlib(&vec![0u8; side as usize * side as usize * 4], 9)) })));
        honest.push(("honest 4600x4600 image cel (84.6 MB decoded)".into(), f.encode()));
        let mut f = gen::file(4, 4, &fmt, &[1]);
        f.frames[0].push(Body::Tileset(tileset(0, 1, 1, 1, vec![0; 4], "t")));
        f.frames[0].push(Body::Layer(Layer::tilemap("l", 0)));
        if let Body::Cel(mut c) = tm_cel(0, 0, 0, 255, side, side, vec![]) {
            if let CelBody::Tilemap { z, .. } = &mut c.body {
                *z = Zlib::Verbatim(zlib(&vec![0u8; side as usize * side as usize * 4], 9));
            }
            f.frames[0].push(Body::Cel(c));
        }
        honest.push(("honest 4600x4600 tilemap cel (84.6 MB decoded)".into(), f.encode()));
        let mut f = gen::file(4, 4, &fmt, &[1]);
        let mut ts = tileset(0, 6, 2048, 2048, vec![], "t");
        ts.z = Zlib::Verbatim(zlib(&vec![0u8; 6 * 2048 * 2048 * 4], 9));
        f.frames[0].push(Body::Tileset(ts));
        honest.push(("honest tileset of 6 tiles of 2048x2048 (100.7 MB decoded)".into(), f.encode()));
    }
    let mut hostile: Vec<(String, Vec<u8>)> = Vec::new();
    {
        let tiny = || Zlib::Verbatim(zlib(&[0u8; 4], 6));
        let mut f = gen::file(4, 4, &fmt, &[1]);
        f.frames[0].push(Body::Layer(Layer::image("l")));
        f.frames[0].push(Body::Cel(Cel::new(0, 0, 0, 255, CelBody::Compressed { w: 65535, h: 65535, data: vec![], z: tiny() })));
        hostile.push(("compressed cel declaring 65535x65535".into(), f.encode()));
        let mut f = gen::file(4, 4, &fmt, &[1]);
        f.frames[0].push(Body::Layer(Layer::image("l")));
        f.frames[0].push(raw_cel(0, 0, 0, 255, 65535, 65535, vec![0; 4]));
        hostile.push(("raw cel declaring 65535x65535".into(), f.encode()));
        let mut f = gen::file(4, 4, &fmt, &[1]);
        f.frames[0].push(Body::Tileset(tileset(0, 1, 1, 1, vec![0; 4], "t")));
        f.frames[0].push(Body::Layer(Layer::tilemap("l", 0)));
        if let Body::Cel(mut c) = tm_cel(0, 0, 0, 255, 65535, 65535, vec![]) {
            if let CelBody::Tilemap { z, .. } = &mut c.body {
                *z = tiny();
            }
            f.frames[0].push(Body::Cel(c));
        }
        hostile.push(("tilemap cel declaring 65535x65535 tiles".into(), f.encode()));
        let mut f = gen::file(4, 4, &fmt, &[1]);
        let mut ts = tileset(0, 0x00ff_ffff, 16, 16, vec![], "t");
        ts.z = tiny();
        f.frames[0].push(Body::Tileset(ts));
        hostile.push(("tileset declaring 16777215 tiles of 16x16".into(), f.encode()));
        let mut f = gen::file(4, 4, &fmt, &[1]);
        f.frames[0].push(Body::Palette(Palette { size: Some(0x0fff_ffff), first: 0, last: Some(0x0fff_fffe), reserved: [0; 8], entries: pal_entries(2, 1) }));
        hostile.push(("palette declaring 268435455 entries".into(), f.encode()));
        let mut f = gen::file(4, 4, &fmt, &[1]);
        f.frames[0].push(Body::Layer(Layer::image("l")));
        f.frames[0].chunks[0].size = Some(0x7fff_fff0);
        hostile.push(("chunk declaring a size of 2 GiB".into(), f.encode()));
        let mut f = gen::file(4, 4, &fmt, &[1]);
        let mut l = Layer::image("l");
        l.name.len_override = Some(65535);
        f.frames[0].push(Body::Layer(l));
        hostile.push(("layer name declaring 65535 bytes".into(), f.encode()));
    }
    (honest, hostile)
}

/// state carried from one load to the next: every sequence of one or two honest large files
/// followed by one tiny hostile file, loaded in the same process
fn cross_load(ctx: &Ctx, worst: &AtomicU64) {
    let fam = "cross-load";
    if !ctx.wants_family(fam) {
        return;
    }
    let (honest, hostile) = cross_load_files();
    let mut seqs: Vec<Vec<usize>> = Vec::new(); // indices into `all` (honest first)
    let nh = honest.len();
    for t in 0..hostile.len() {
        seqs.push(vec![nh + t]);
        for a in 0..nh {
            seqs.push(vec![a, nh + t]);
            for b in 0..nh {
                seqs.push(vec![a, b, nh + t]);
            }
        }
    }
    let all: Vec<(String, Vec<u8>)> = honest.into_iter().chain(hostile).collect();
    let label = |s: &Vec<usize>| s.iter().map(|i| all[*i].0.clone()).collect::<Vec<_>>().join(" ; then ");
    let only_idx: Option<usize> = ctx.only.as_ref().and_then(|(_, c)| c.strip_prefix("idx=").and_then(|r| r.split(' ').next()).and_then(|s| s.parse().ok()));
    let indices: Vec<usize> = match only_idx {
        Some(i) if i < seqs.len() => vec![i],
        Some(_) => vec![],
        None => (0..seqs.len()).collect(),
    };
    ctx.family(fam, indices.len() as u64, &format!("loads in one process, one after the other: every sequence of 0, 1 or 2 honest files with one large decoded payload (84.6 MB image cel, 84.6 MB tilemap cel, 100.7 MB tileset; each a few hundred KB on disk) followed by one of {} tiny files that merely declare a huge size (cel, raw cel, tilemap, tileset, palette, chunk size, string length); the peak of every load is measured from that load's own entry level and judged against 64 MiB + 8192 x that file's length", all.len() - nh), true);
    let pool = Pool::new("checked", 6, 600.0);
    pool.run(
        indices.len(),
        &|k| {
            let files: Vec<(&[u8], bool)> = seqs[indices[k]].iter().map(|i| (all[*i].1.as_slice(), false)).collect();
            (worker::KIND_LOAD_SEQ, 0, worker::seq_task(&files))
        },
        &|k, _bytes, r: TaskResult| {
            let i = indices[k];
            let items = worker::seq_items(&r);
            ctx.eval(seqs[i].len() as u64);
            ctx.outcome(hash64(&(worker::status_sig(&r), items.iter().map(|x| (x.status, x.peak / 4096)).collect::<Vec<_>>())));
            if !matches!(r.status, Status::Ok) || items.len() != seqs[i].len() {
                // aborts and timeouts are C04's business, but a sequence that cannot be measured is reported
                ctx.violation(Violation { family: fam.into(), case: format!("idx={} {}", i, label(&seqs[i])), sig: format!("over-budget:{}:{}", fam, worker::status_sig(&r)), detail: format!("the sequence did not complete: {:?} {}", r.status, r.msg), bytes: None, extra: json!({}) });
                return;
            }
            for (pos, it) in items.iter().enumerate() {
                let len = all[seqs[i][pos]].1.len();
                let lim = bound(len);
                worst.fetch_max(it.peak.saturating_mul(1000) / lim, Relaxed);
                if it.peak > lim || it.largest > lim {
                    ctx.violation(Violation {
                        family: fam.into(),
                        case: format!("idx={} {}", i, label(&seqs[i])),
                        sig: format!("over-budget:{}", fam),
                        detail: format!("load #{} of the sequence ({}, {} bytes): live heap reached {} B (largest single request {} B); bound is {} B", pos + 1, all[seqs[i][pos]].0, len, it.peak, it.largest, lim),
                        bytes: Some(all[seqs[i][pos]].1.clone()),
                        extra: json!({"sequence": seqs[i].iter().map(|x| all[*x].0.clone()).collect::<Vec<_>>(), "position": pos, "peak": it.peak, "largest": it.largest, "bound": lim}),
                    });
                }
            }
        },
    );
}

pub fn run(ctx: &Ctx) -> i32 {
    let thorough = ctx.tier == Tier::Thorough;
    let bases = based_files(false);
    let mut fams: Vec<InputFam> = vec![inflate_family(&bases), entity_pairs(&bases), large_then_error(), wide_tags(), bombs(thorough), dense(thorough), links_to_big(thorough)];
    // the C04 corruption families under the memory oracle as well (byte sweeps only in thorough)
    for f in all_families(ctx.tier) {
        if (f.name.starts_with("M1") && !thorough) || f.name == "M2-structural-big" {
            continue;
        }
        fams.push(f);
    }
    let worst = AtomicU64::new(0);
    for fam in &fams {
        if !ctx.wants_family(&fam.name) {
            continue;
        }
        let heavy = fam.name == "deflate-bombs" || fam.name == "large-then-error" || fam.name == "dense-cel-table" || fam.name == "links-to-big" || fam.name.starts_with("M6");
        let pool = Pool::new("checked", if heavy { 3 } else { 16 }, if heavy { 300.0 } else { 30.0 });
        let only_idx: Option<usize> = ctx.only.as_ref().and_then(|(_, c)| c.strip_prefix("idx=").and_then(|r| r.split(' ').next()).and_then(|s| s.parse().ok()));
        let indices: Vec<usize> = match only_idx {
            Some(i) if i < fam.n => vec![i],
            Some(_) => vec![],
            None => (0..fam.n).collect(),
        };
        ctx.family(&fam.name, indices.len() as u64, &format!("{} [peak live heap during load measured; hard budget = 64 MiB + 8192 x input length]", fam.what), true);
        pool.run(
            indices.len(),
            &|k| {
                let b = (fam.gen)(indices[k]);
                (worker::KIND_LOAD, bound(b.len()), b)
            },
            &|k, bytes, r: TaskResult| {
                let i = indices[k];
                ctx.eval(1);
                let lim = bound(bytes.len());
                // permille of the bound used
                let used = if lim > 0 { r.peak.saturating_mul(1000) / lim } else { 0 };
                worst.fetch_max(used, Relaxed);
                ctx.outcome(hash64(&(worker::status_sig(&r), r.peak / 4096)));
                let over = matches!(r.status, Status::Budget) || r.peak > lim || r.largest > lim;
                // panics / aborts / timeouts are C04's business; only memory is judged here
                if over {
                    ctx.violation(Violation {
                        family: fam.name.clone(),
                        case: format!("idx={} {}", i, (fam.label)(i)),
                        sig: format!("over-budget:{}", fam.name),
                        detail: format!("input of {} bytes: live heap reached {} B (largest single request {} B) while loading; bound is {} B [{:?}]", bytes.len(), r.peak, r.largest, lim, r.status),
                        bytes: if bytes.len() <= 300_000 { Some(bytes.to_vec()) } else { None },
                        extra: json!({"input_len": bytes.len(), "peak": r.peak, "largest": r.largest, "bound": lim, "label": (fam.label)(i)}),
                    });
                }
            },
        );
    }
    cross_load(ctx, &worst);
    ctx.set_extra("worst_peak_permille_of_bound", json!(worst.load(Relaxed)));
    ctx.sample(json!({"family": "inflate-declared", "case": "b3 frame[0].chunk[0].ts_ntiles#0=4294967295", "meaning": "base b3 with the tileset's tile count field set to 2^32-1; peak live heap during load must stay below 64 MiB + 8192 x 496 bytes"}));
    ctx.assume("heap use is what the process-wide counting allocator sees between entry to and return from AsepriteFile::read on a single-threaded worker (requests are counted whether or not the pages are touched)");
    ctx.finish()
}
