//! The C16 subject sprite and its representative accessor calls.  Shared verbatim (via
//! #[path]) between the main harness and the `mc-sx` harness, which links the same calls
//! against a copy of the library whose synchronisation primitives are shuttle's.
use asefile::AsepriteFile;
use mc_core::ase::*;
use mc_core::explore::hash64;
use mc_core::gen::{self, *};
use mc_core::sem::Fmt;

/// 2 frames x 3 layers (background + blended + tilemap), indexed with the transparent index in use, palette, user data, tags, slices
pub fn subject() -> File {
    let fmt = Fmt::Indexed(0);
    let mut f = gen::file(4, 3, &fmt, &[50, 70]);
    // index range includes the transparent index 0
    let ir = (0u8, 7u8);
    let fr = &mut f.frames[0];
    fr.push(new_palette(0, pal_entries(8, 4)));
    fr.push(Body::Tileset(tileset(2, 3, 2, 1, tile_pixels(&fmt, 3, 2, 1, 3, ir), "ts")));
    // layer 0 is flagged background (the transparent index is opaque there), layers 1, 2 are not
    let mut base = Layer::image("base");
    base.flags |= 8;
    fr.push(Body::Layer(base));
    fr.push(Body::UserData(UserData::both("layer-ud", [1, 2, 3, 4])));
    let mut top = Layer::image("top");
    top.blend = 1;
    top.opacity = 180;
    fr.push(Body::Layer(top));
    fr.push(Body::Layer(Layer::tilemap("map", 2)));
    // a fourth layer without cels that repeats the name of layer 0 (lookups by name return the lowest id)
    fr.push(Body::Layer(Layer::image("base")));
    fr.push(tags(vec![Tag::new("a", 0, 1, 0), Tag::new("b", 1, 1, 2)]));
    fr.push(Body::UserData(UserData::text("tag-a")));
    fr.push(slice("s", 3, vec![key(0, 0, 0, 2, 2)]));
    fr.push(raw_cel(0, 0, 0, 255, 4, 3, pixels(&fmt, 4, 3, 1, ir)));
    fr.push(zcel(1, 1, 1, 200, 2, 2, pixels(&fmt, 2, 2, 2, ir), 6));
    fr.push(Body::UserData(UserData::color([9, 9, 9, 9])));
    fr.push(tm_cel(2, 0, 0, 255, 2, 2, vec![1, 2, 0, 1]));
    f.frames[1].push(link_cel(0, 0, 0, 255, 0));
    f.frames[1].push(tm_cel(2, 2, 1, 128, 1, 2, vec![2, 1]));
    f
}

pub type Call = (&'static str, fn(&AsepriteFile) -> u64);

pub fn h_img(i: image::RgbaImage) -> u64 {
    hash64(&(i.dimensions(), i.into_raw()))
}

/// marker returned by a call that panicked (documented panics are part of the alphabet:
/// a survived panic must not change what later calls return)
pub const PANICKED: u64 = 0x50414e49434b4544;

pub fn caught(f: impl FnOnce() -> u64) -> u64 {
    std::panic::catch_unwind(std::panic::AssertUnwindSafe(f)).unwrap_or(PANICKED)
}

/// calls whose arguments are out of range (they panic; used in sequential histories only:
/// shuttle reports every panic inside an execution, caught or not)
pub fn panics(i: usize) -> bool {
    (14..=17).contains(&i)
}

pub const CALLS: [Call; 20] = [
    ("frame(0).image", |f| h_img(f.frame(0).image())),
    ("frame(1).image", |f| h_img(f.frame(1).image())),
    ("cel(0,1).image", |f| h_img(f.cel(0, 1).image())),
    ("layer(0).frame(1).image", |f| h_img(f.layer(0).frame(1).image())),
    ("tilemap(2,0).image", |f| h_img(f.tilemap(2, 0).unwrap().image())),
    ("tilemap(2,1).tile(*)", |f| {
        let t = f.tilemap(2, 1).unwrap();
        hash64(&(0..4).flat_map(|y| (0..4).map(move |x| (x, y))).map(|(x, y)| t.tile(x, y).id()).collect::<Vec<_>>())
    }),
    ("tileset.image", |f| h_img(f.tilesets().get(2).unwrap().image())),
    ("tileset.tile_image(1)", |f| h_img(f.tilesets().get(2).unwrap().tile_image(1))),
    ("palette", |f| {
        let p = f.palette().unwrap();
        hash64(&(p.num_colors(), (0..9).map(|i| p.color(i).map(|c| c.raw_rgba8())).collect::<Vec<_>>()))
    }),
    ("layer_by_name", |f| hash64(&(f.layer_by_name("top").map(|l| l.id()), f.layer_by_name("nope").map(|l| l.id())))),
    ("tag_by_name", |f| hash64(&f.tag_by_name("b").map(|t| (t.from_frame(), t.to_frame(), t.user_data().cloned().map(|u| u.text))))),
    ("slices+userdata", |f| hash64(&(f.slices().len(), f.slices()[0].name.clone(), f.layer(0).user_data().map(|u| u.text.clone()), f.cel(0, 1).user_data().map(|u| u.color.map(|c| c.0))))),
    ("layers walk", |f| hash64(&f.layers().map(|l| (l.id(), l.is_visible(), l.parent().map(|p| p.id()), l.name().to_string())).collect::<Vec<_>>())),
    // Debug output must be produced without a panic; its text is not a result (it may legitimately show
    // the state of a lazily filled cache or a hash order)
    ("debug fmt", |f| {
        let _ = format!("{:?} {:?}", f.layer(1), f.layer(2));
        1
    }),
    // calls 14..: out-of-range arguments (panic), caught; the sprite must be unaffected
    ("tileset.tile_image(99) [out of range]", |f| caught(|| h_img(f.tilesets().get(2).unwrap().tile_image(99)))),
    ("layer(99) [out of range]", |f| caught(|| hash64(&f.layer(99).name().to_string()))),
    ("frame(99).image [out of range]", |f| caught(|| h_img(f.frame(99).image()))),
    ("cel(99,99).image [out of range]", |f| caught(|| h_img(f.cel(99, 99).image()))),
    ("cel(0,0).image", |f| h_img(f.cel(0, 0).image())),
    ("layer_by_name(duplicate name)", |f| hash64(&(f.layer_by_name("base").map(|l| l.id()), f.tag_by_name("a").map(|t| t.from_frame())))),
];

