//! C17 — blend results obey mode-independent alpha and identity laws (no reference
//! implementation involved: the library is compared with itself and with the inputs).
use crate::props::blendgrid::*;
use mc_core::blend::mul_un8;
use mc_core::explore::*;
use rayon::prelude::*;
use serde_json::json;
use std::sync::atomic::{AtomicU64, Ordering::Relaxed};

pub fn run(ctx: &Ctx) -> i32 {
    let fams = families(ctx.tier);
    let pixels = AtomicU64::new(0);
    let law_hits = [AtomicU64::new(0), AtomicU64::new(0), AtomicU64::new(0), AtomicU64::new(0)];
    for fam in &fams {
        if !ctx.wants_family(fam.name) {
            continue;
        }
        ctx.family(fam.name, (fam.n * fam.modes.len()) as u64, &format!("{} — {} specs x {} modes; laws (1) alpha == Normal's alpha, (2) transparent source or zero opacity leaves a visible backdrop unchanged, (3) transparent backdrop gives the source with alpha scaled, (4) Normal/255/opaque returns the source, (5) no panic", fam.what, fam.n, fam.modes.len()), true);
        (0..fam.n).into_par_iter().for_each(|i| {
            let any = fam.modes.iter().any(|m| ctx.wants(fam.name, &|| format!("spec{} mode{}", i, m)));
            if !any {
                return;
            }
            let sp = (fam.build)(i);
            let n = sp.b.len();
            let op = mul_un8(sp.lo, sp.co);
            let fail = |m: u16, msg: String, bytes: Option<Vec<u8>>, sig: String| {
                ctx.violation(Violation { family: fam.name.into(), case: format!("spec{} mode{}", i, m), sig, detail: msg, bytes, extra: json!({}) });
            };
            // Normal-mode render of the same inputs: the alpha oracle
            let normal = match render(0, &sp) {
                Ok(g) => g,
                Err((msg, bytes)) => {
                    fail(0, msg.clone(), if bytes.len() < 300_000 { Some(bytes) } else { None }, format!("render-failed:{}", crate::common::sig_of(&msg)));
                    return;
                }
            };
            for m in &fam.modes {
                let case = || format!("spec{} mode{}", i, m);
                if !ctx.wants(fam.name, &case) {
                    continue;
                }
                let got = if *m == 0 {
                    normal.clone()
                } else {
                    match render(*m, &sp) {
                        Ok(g) => g,
                        Err((msg, bytes)) => {
                            ctx.eval_n(n as u64, n as u64);
                            fail(*m, format!("{} (law 5: no overflow check or debug assertion may fire)", msg), if bytes.len() < 300_000 { Some(bytes) } else { None }, format!("render-failed:{}", crate::common::sig_of(&msg)));
                            continue;
                        }
                    }
                };
                let mut first: Option<(usize, u8, String)> = None;
                let mut nbad = 0u64;
                let mut hits = [0u64; 4];
                for k in 0..n {
                    let (b, s, r) = (sp.b[k].to_le_bytes(), sp.s[k].to_le_bytes(), got[k].to_le_bytes());
                    let mut bad = |law: u8, msg: String| {
                        nbad += 1;
                        if first.is_none() {
                            first = Some((k, law, msg));
                        }
                    };
                    // (1)
                    hits[0] += 1;
                    if r[3] != (normal[k] >> 24) as u8 {
                        bad(1, format!("alpha {} but Normal mode gives alpha {}", r[3], normal[k] >> 24));
                    }
                    // (2)
                    if (s[3] == 0 || op == 0) && b[3] != 0 {
                        hits[1] += 1;
                        if r != b {
                            bad(2, format!("result {:?} but the visible backdrop {:?} must be unchanged", r, b));
                        }
                    }
                    // (3)
                    if b[3] == 0 {
                        hits[2] += 1;
                        let a = mul_un8(s[3], op);
                        let ok = if a == 0 { r[3] == 0 } else { r == [s[0], s[1], s[2], a] };
                        if !ok {
                            bad(3, format!("result {:?} but over a transparent backdrop it must be {:?}", r, [s[0], s[1], s[2], a]));
                        }
                    }
                    // (4)
                    if *m == 0 && sp.lo == 255 && sp.co == 255 && s[3] == 255 {
                        hits[3] += 1;
                        if r != s {
                            bad(4, format!("result {:?} but Normal at full opacity with an opaque source must return the source", r));
                        }
                    }
                }
                for (h, a) in hits.iter().zip(law_hits.iter()) {
                    a.fetch_add(*h, Relaxed);
                }
                pixels.fetch_add(n as u64, Relaxed);
                ctx.eval_n(n as u64, n as u64);
                ctx.outcome(hash64(&got));
                if let Some((k, law, msg)) = first {
                    ctx.violation(Violation {
                        family: fam.name.into(),
                        case: case(),
                        sig: format!("law{}:mode{}", law, m),
                        detail: format!("{} pixels break a law; first: {} : {}", nbad, describe_px(*m, sp.b[k], sp.s[k], sp.lo, sp.co), msg),
                        bytes: Some(sprite(*m, &Spec { w: 1, h: 1, b: vec![sp.b[k]], s: vec![sp.s[k]], lo: sp.lo, co: sp.co, via_tilemap: sp.via_tilemap, flags: sp.flags, pad: 0, hflags: 1 })),
                        extra: json!({"mode": m, "backdrop": sp.b[k].to_le_bytes(), "source": sp.s[k].to_le_bytes(), "layer_opacity": sp.lo, "cel_opacity": sp.co, "law": law}),
                    });
                }
            }
        });
    }

    // the laws on frames with two blended layers above the backdrop (what one layer leaves behind must
    // not reach the next): every (mode, opacity, source) for each of the two upper layers
    if ctx.wants_family("stacks") {
        use crate::common::{load, Loaded};
        use mc_core::ase::*;
        use mc_core::gen;
        let backdrops = [px(90, 160, 220, 255), px(90, 160, 220, 130), px(0, 0, 0, 0)];
        let sources = [px(200, 40, 10, 255), px(200, 40, 10, 120), px(200, 40, 10, 0)];
        let ops = [0u8, 100, 255];
        // upper-layer descriptor: (mode, opacity index, source index)
        let descr: Vec<(u16, usize, usize)> = (0..19u16).flat_map(|m| (0..3).flat_map(move |o| (0..3).map(move |s| (m, o, s)))).collect();
        let nd = descr.len();
        let cases: Vec<(usize, usize, usize)> = (0..backdrops.len()).flat_map(|b| (0..nd).flat_map(move |x| (0..nd).map(move |y| (b, x, y)))).collect();
        ctx.family("stacks", cases.len() as u64, "1x1 frames: a backdrop layer (opaque / translucent / transparent) under two layers, each with every mode x layer opacity {0,100,255} x source alpha {255,120,0}, the same source colour on both (87,723 stacks): (1) the frame's alpha equals the alpha of the same stack with both modes Normal; (2)-(4) applied layer by layer wherever they determine the pixel", true);
        let render3 = |b: usize, x: (u16, usize, usize), y: (u16, usize, usize)| -> Result<u32, (String, Vec<u8>)> {
            let fmt = mc_core::sem::Fmt::Rgba;
            let mut f = gen::file(1, 1, &fmt, &[1]);
            f.frames[0].push(Body::Layer(Layer::image("backdrop")));
            for (i, d) in [x, y].iter().enumerate() {
                let mut l = Layer::image(if i == 0 { "one" } else { "two" });
                l.blend = d.0;
                l.opacity = ops[d.1];
                f.frames[0].push(Body::Layer(l));
            }
            f.frames[0].push(gen::raw_cel(0, 0, 0, 255, 1, 1, backdrops[b].to_le_bytes().to_vec()));
            f.frames[0].push(gen::raw_cel(1, 0, 0, 255, 1, 1, sources[x.2].to_le_bytes().to_vec()));
            f.frames[0].push(gen::raw_cel(2, 0, 0, 255, 1, 1, sources[y.2].to_le_bytes().to_vec()));
            let bytes = f.encode();
            match load(&bytes) {
                Loaded::Ok(file) => {
                    let mut p = Vec::new();
                    match crate::observe::guarded(&mut p, || "frame(0).image".into(), || file.frame(0).image()) {
                        Some(i) => Ok(u32::from_le_bytes(i.get_pixel(0, 0).0)),
                        None => Err((format!("render panic: {}", p[0].1), bytes)),
                    }
                }
                _ => Err(("the sprite does not load".into(), bytes)),
            }
        };
        // Normal-mode alphas, per (backdrop, opacity/source of both layers)
        cases.par_iter().for_each(|(b, xi, yi)| {
            let (x, y) = (descr[*xi], descr[*yi]);
            let case = || format!("backdrop#{} layer1=(mode {}, opacity {}, source#{}) layer2=(mode {}, opacity {}, source#{})", b, x.0, ops[x.1], x.2, y.0, ops[y.1], y.2);
            if !ctx.wants("stacks", &case) {
                return;
            }
            ctx.eval_n(1, 3);
            let got = match render3(*b, x, y) {
                Ok(g) => g,
                Err((msg, bytes)) => {
                    ctx.violation(Violation { family: "stacks".into(), case: case(), sig: format!("render-failed:{}", crate::common::sig_of(&msg)), detail: msg, bytes: Some(bytes), extra: json!({}) });
                    return;
                }
            };
            ctx.outcome(hash64(&got));
            let mut bad: Option<(u8, String)> = None;
            // (1) against the same stack with both modes Normal
            if x.0 != 0 || y.0 != 0 {
                if let Ok(n) = render3(*b, (0, x.1, x.2), (0, y.1, y.2)) {
                    if got >> 24 != n >> 24 {
                        bad = Some((1, format!("alpha {} but the same stack with Normal modes gives alpha {}", got >> 24, n >> 24)));
                    }
                }
            }
            // (2)-(4) layer by layer, as far as they determine the pixel
            let mut cur: Option<[u8; 4]> = Some(backdrops[*b].to_le_bytes());
            for d in [x, y] {
                let s = sources[d.2].to_le_bytes();
                let op = ops[d.1];
                cur = match cur {
                    Some(c) if (s[3] == 0 || op == 0) && c[3] != 0 => Some(c),
                    Some(c) if c[3] == 0 => {
                        let a = mul_un8(s[3], op);
                        Some(if a == 0 { [0, 0, 0, 0] } else { [s[0], s[1], s[2], a] })
                    }
                    _ if d.0 == 0 && op == 255 && s[3] == 255 => Some(s),
                    _ => None,
                };
            }
            if let (Some(e), None) = (cur, &bad) {
                let g = got.to_le_bytes();
                if !(e == g || (e[3] == 0 && g[3] == 0)) {
                    bad = Some((2, format!("frame pixel {:?}, but the laws applied layer by layer give {:?}", g, e)));
                }
            }
            if let Some((law, msg)) = bad {
                ctx.violation(Violation { family: "stacks".into(), case: case(), sig: format!("law{}:stack", law), detail: msg, bytes: None, extra: json!({}) });
            }
        });
    }

    // opaque cels with one non-opaque pixel at the first / middle / each of the last 9 positions
    if ctx.wants_family("tail-pixels") {
        use crate::common::{load, Loaded};
        use mc_core::ase::*;
        use mc_core::gen;
        let shapes: [(u16, u16); 6] = [(9, 9), (13, 5), (67, 1), (10, 10), (8, 8), (3, 23)];
        let cases: Vec<(usize, usize, u8)> = (0..shapes.len()).flat_map(|s| (0..11usize).flat_map(move |p| [0u8, 128].into_iter().map(move |a| (s, p, a)))).collect();
        ctx.family("tail-pixels", cases.len() as u64, "an opaque backdrop under a canvas-covering opaque cel (both opacities 255) with ONE pixel of alpha 0 or 128 at the first, middle or one of the last 9 positions, rendered in Normal and in Multiply mode: (1) equal alpha in both modes, (2) the transparent pixel leaves the backdrop unchanged in both", true);
        cases.par_iter().for_each(|(sh, pos, a)| {
            let (w, h) = shapes[*sh];
            let n = w as usize * h as usize;
            let case = || format!("{}x{} position#{} alpha={}", w, h, pos, a);
            if !ctx.wants("tail-pixels", &case) {
                return;
            }
            let at = match *pos {
                0 => 0,
                1 => n / 2,
                p => n - 1 - (p - 2),
            };
            let render = |mode: u16| -> Option<Vec<[u8; 4]>> {
                let fmt = mc_core::sem::Fmt::Rgba;
                let mut f = gen::file(w, h, &fmt, &[10]);
                f.frames[0].push(Body::Layer(Layer::image("back")));
                let mut top = Layer::image("top");
                top.blend = mode;
                f.frames[0].push(Body::Layer(top));
                f.frames[0].push(gen::raw_cel(0, 0, 0, 255, w, h, [255u8, 0, 0, 255].iter().cycle().take(n * 4).copied().collect()));
                let mut px = gen::opaque_pixels(&fmt, w as usize, h as usize, 3, (0, 0));
                px[at * 4 + 3] = *a;
                f.frames[0].push(gen::raw_cel(1, 0, 0, 255, w, h, px));
                match load(&f.encode()) {
                    Loaded::Ok(file) => {
                        let mut p = Vec::new();
                        crate::observe::guarded(&mut p, || "frame(0).image".into(), || file.frame(0).image()).map(|i| i.pixels().map(|q| q.0).collect())
                    }
                    _ => None,
                }
            };
            ctx.eval_n(1, 2 * n as u64);
            let (Some(nrm), Some(mul)) = (render(0), render(1)) else {
                ctx.violation(Violation { family: "tail-pixels".into(), case: case(), sig: "render-failed".into(), detail: "load or render failed".into(), bytes: None, extra: json!({}) });
                return;
            };
            ctx.outcome(hash64(&nrm));
            let mut bad = None;
            for k in 0..n {
                if nrm[k][3] != mul[k][3] {
                    bad = Some((1, format!("pixel {}: alpha {} in Normal mode, {} in Multiply mode", k, nrm[k][3], mul[k][3])));
                    break;
                }
            }
            if bad.is_none() && *a == 0 {
                for (nm, r) in [("Normal", &nrm), ("Multiply", &mul)] {
                    if r[at] != [255, 0, 0, 255] {
                        bad = Some((2, format!("{}: the fully transparent source pixel {} changed the backdrop to {:?}", nm, at, r[at])));
                    }
                }
            }
            if let Some((law, msg)) = bad {
                ctx.violation(Violation { family: "tail-pixels".into(), case: case(), sig: format!("law{}:tail", law), detail: msg, bytes: None, extra: json!({}) });
            }
        });
    }
    ctx.set_extra("pixels_checked", json!(pixels.load(Relaxed)));
    ctx.set_extra("law_applications", json!({"1_alpha_equals_normal": law_hits[0].load(Relaxed), "2_backdrop_unchanged": law_hits[1].load(Relaxed), "3_transparent_backdrop": law_hits[2].load(Relaxed), "4_normal_identity": law_hits[3].load(Relaxed)}));
    ctx.sample(json!({"mode": "hue", "backdrop": [0, 127, 255, 128], "source": [1, 1, 128, 0], "layer_opacity": 255, "cel_opacity": 255, "law": 2, "meaning": "fully transparent source over a visible backdrop: result must equal the backdrop"}));
    ctx.assume("the subject is compiled with overflow checks and debug assertions on (profile `checked`), so a firing check is a panic and is reported under law 5");
    ctx.finish()
}
