//! Fault / corruption input families shared by C04, C05 and C12.
use mc_core::ase::*;
use mc_core::explore::*;
use mc_core::gen::{self, *};
use mc_core::sem::Fmt;
use std::sync::Arc;

pub struct InputFam {
    pub name: String,
    pub what: String,
    pub n: usize,
    pub gen: Box<dyn Fn(usize) -> Vec<u8> + Sync + Send>,
    pub label: Box<dyn Fn(usize) -> String + Sync + Send>,
}

fn fam(name: &str, what: &str, inputs: Vec<(String, Vec<u8>)>) -> InputFam {
    let inputs = Arc::new(inputs);
    let i2 = inputs.clone();
    InputFam { name: name.into(), what: what.into(), n: inputs.len(), gen: Box::new(move |i| inputs[i].1.clone()), label: Box::new(move |i| i2[i].0.clone()) }
}

fn patch(bytes: &[u8], f: &Field, v: u64) -> Vec<u8> {
    let mut b = bytes.to_vec();
    for k in 0..f.width as usize {
        b[f.offset + k] = (v >> (8 * k)) as u8;
    }
    b
}

fn field_values(f: &Field) -> Vec<u64> {
    match f.width {
        1 => (0..256).collect(),
        2 => b16().into_iter().map(|v| v as u64).collect(),
        _ => b32().into_iter().map(|v| v as u64).collect(),
    }
}

fn reduced_values(f: &Field) -> Vec<u64> {
    match f.width {
        1 => vec![0, 1, 127, 128, 255],
        2 => vec![0, 1, 255, 256, 32767, 32768, 65535],
        _ => vec![0, 1, 65535, 65536, 0x7FFF_FFFF, 0x8000_0000, 0xFFFF_FFFF],
    }
}

pub fn structural(f: &Field) -> bool {
    matches!(f.role, Role::Size | Role::Count | Role::Index | Role::Offset | Role::Enum | Role::StrLen)
}

pub struct Based {
    pub name: String,
    pub bytes: Vec<u8>,
    pub fields: Vec<Field>,
}

pub fn based_files(corpus: bool) -> Vec<Based> {
    let mut v = Vec::new();
    for (n, f) in gen::bases() {
        let e = f.encode_full(true);
        v.push(Based { name: n.to_string(), bytes: e.bytes, fields: e.fields });
    }
    {
        let e = gen::d1(&Fmt::Indexed(4)).encode_full(true);
        v.push(Based { name: "d1i".to_string(), bytes: e.bytes, fields: e.fields });
    }
    {
        // every payload above 64 KiB: size fields sit next to the buffer-growth thresholds
        let e = gen::big().encode_full(true);
        v.push(Based { name: "big".to_string(), bytes: e.bytes, fields: e.fields });
    }
    if corpus {
        for n in ["basic-16x16", "tilemap_indexed", "user_data", "linked_cels", "slice", "palette", "256_color_old_palette_chunk", "layers_and_tags", "tilemap_multi", "indexed"] {
            if let Ok(b) = std::fs::read(format!("/repo/tests/data/{}.aseprite", n)) {
                if let Ok(f) = mc_core::ase_parse::parse(&b) {
                    let e = f.encode_full(true);
                    if e.bytes == b {
                        v.push(Based { name: n.to_string(), bytes: b, fields: e.fields });
                    }
                }
            }
        }
    }
    v
}

/// M1: single-byte substitution
pub fn m1(bases: &[Based], all_values: bool) -> Vec<InputFam> {
    let mut out = Vec::new();
    for b in bases {
        let bytes = Arc::new(b.bytes.clone());
        let len = bytes.len();
        let name = b.name.clone();
        if all_values {
            let by = bytes.clone();
            let nm = name.clone();
            out.push(InputFam {
                name: format!("M1-byte-{}", name),
                what: format!("{}: every offset (0..{}) x every byte value", name, len),
                n: len * 256,
                gen: Box::new(move |i| {
                    let mut v = by.to_vec();
                    v[i / 256] = (i % 256) as u8;
                    v
                }),
                label: Box::new(move |i| format!("{} byte[{}]={}", nm, i / 256, i % 256)),
            });
        } else {
            let by = bytes.clone();
            let nm = name.clone();
            out.push(InputFam {
                name: format!("M1-byte7-{}", name),
                what: format!("{}: every offset (0..{}) x {{0,1,0x7f,0x80,0xfe,0xff,orig+1,orig-1}}", name, len),
                n: len * 8,
                gen: Box::new(move |i| {
                    let mut v = by.to_vec();
                    let o = v[i / 8];
                    v[i / 8] = [0, 1, 0x7f, 0x80, 0xfe, 0xff, o.wrapping_add(1), o.wrapping_sub(1)][i % 8];
                    v
                }),
                label: Box::new(move |i| format!("{} byte[{}] alt#{}", nm, i / 8, i % 8)),
            });
        }
    }
    out
}

/// M2: field corruption, singles and pairs
pub fn m2(bases: &[Based], all_pairs: bool) -> Vec<InputFam> {
    let mut out = Vec::new();
    for b in bases {
        // singles, generated lazily (a base may be hundreds of KB)
        {
            let fields = Arc::new(b.fields.clone());
            let bytes = Arc::new(b.bytes.clone());
            let mut idx: Vec<(u32, u64)> = Vec::new();
            for (fi, f) in fields.iter().enumerate() {
                for v in field_values(f) {
                    idx.push((fi as u32, v));
                }
            }
            let idx = Arc::new(idx);
            let (f2, b2, i2) = (fields.clone(), bytes.clone(), idx.clone());
            let (f3, i3, nm) = (fields.clone(), idx.clone(), b.name.clone());
            out.push(InputFam {
                name: format!("M2-field-{}", b.name),
                what: format!("{}: each of {} recorded fields set to every value of its boundary alphabet (all 256 / B16 / B32)", b.name, b.fields.len()),
                n: idx.len(),
                gen: Box::new(move |k| {
                    let (fi, v) = i2[k];
                    patch(&b2, &f2[fi as usize], v)
                }),
                label: Box::new(move |k| {
                    let (fi, v) = i3[k];
                    format!("{} {}={}", nm, f3[fi as usize].label(), v)
                }),
            });
        }
        if b.bytes.len() > 100_000 {
            // for the walk-based checks: the structural fields only (rendering a 400 KB sprite 50,000 times is too slow)
            let fields: Vec<Field> = b.fields.iter().filter(|f| structural(f)).cloned().collect();
            let fields = Arc::new(fields);
            let bytes = Arc::new(b.bytes.clone());
            let mut idx: Vec<(u32, u64)> = Vec::new();
            for (fi, f) in fields.iter().enumerate() {
                for v in reduced_values(f) {
                    idx.push((fi as u32, v));
                }
            }
            let idx = Arc::new(idx);
            let (f2, b2, i2) = (fields.clone(), bytes.clone(), idx.clone());
            let (f3, i3, nm) = (fields.clone(), idx.clone(), b.name.clone());
            out.push(InputFam {
                name: format!("M2-structural-{}", b.name),
                what: format!("{}: each of {} size/count/index/offset/enum/string-length fields set to each reduced boundary value", b.name, fields.len()),
                n: idx.len(),
                gen: Box::new(move |k| {
                    let (fi, v) = i2[k];
                    patch(&b2, &f2[fi as usize], v)
                }),
                label: Box::new(move |k| {
                    let (fi, v) = i3[k];
                    format!("{} {}={}", nm, f3[fi as usize].label(), v)
                }),
            });
            continue;
        }
        let st: Vec<&Field> = b.fields.iter().filter(|f| all_pairs || structural(f)).collect();
        let fields = Arc::new(st.iter().map(|f| (*f).clone()).collect::<Vec<_>>());
        let bytes = Arc::new(b.bytes.clone());
        // enumerate pairs lazily: index -> (i, j, vi, vj)
        let mut index: Vec<(u32, u32)> = Vec::new();
        for i in 0..fields.len() {
            for j in i + 1..fields.len() {
                index.push((i as u32, j as u32));
            }
        }
        let index = Arc::new(index);
        let per: Vec<usize> = fields.iter().map(|f| reduced_values(f).len()).collect();
        let mut starts = Vec::with_capacity(index.len() + 1);
        let mut acc = 0usize;
        for (i, j) in index.iter() {
            starts.push(acc);
            acc += per[*i as usize] * per[*j as usize];
        }
        starts.push(acc);
        let starts = Arc::new(starts);
        let (f2, b2, ix2, st2) = (fields.clone(), bytes.clone(), index.clone(), starts.clone());
        let decode = move |k: usize| -> (usize, usize, u64, u64) {
            let p = st2.partition_point(|s| *s <= k) - 1;
            let (i, j) = ix2[p];
            let r = k - st2[p];
            let vj = reduced_values(&f2[j as usize]);
            let vi = reduced_values(&f2[i as usize]);
            (i as usize, j as usize, vi[r / vj.len()], vj[r % vj.len()])
        };
        let d1 = Arc::new(decode);
        let d2 = d1.clone();
        let (f3, nm) = (fields.clone(), b.name.clone());
        out.push(InputFam {
            name: format!("M2-pairs-{}", b.name),
            what: format!("{}: all pairs among {} {} fields x reduced boundary values", b.name, fields.len(), if all_pairs { "recorded" } else { "size/count/index/offset/enum/string-length" }),
            n: acc,
            gen: Box::new(move |k| {
                let (i, j, vi, vj) = d1(k);
                let x = patch(&b2, &fields[i], vi);
                patch(&x, &fields[j], vj)
            }),
            label: Box::new(move |k| {
                let (i, j, vi, vj) = d2(k);
                format!("{} {}={} {}={}", nm, f3[i].label(), vi, f3[j].label(), vj)
            }),
        });
    }
    out
}

fn simple(fmt: &Fmt, nlayers: usize, nframes: usize) -> File {
    let d: Vec<u16> = (0..nframes as u16).map(|i| 10 + i).collect();
    let mut f = gen::file(3, 2, fmt, &d);
    if let Fmt::Indexed(_) = fmt {
        f.frames[0].push(new_palette(0, pal_entries(8, 1)));
    }
    for i in 0..nlayers {
        f.frames[0].push(Body::Layer(Layer::image(&format!("l{}", i))));
    }
    f
}

/// M3: semantic inconsistencies, re-encoded so that all size fields are consistent
pub fn m3() -> InputFam {
    let mut v: Vec<(String, Vec<u8>)> = Vec::new();
    let fmts = [Fmt::Rgba, Fmt::Gray, Fmt::Indexed(0)];
    let ir = (0u8, 7u8);
    // a. level sequences over {0,1,2,3,65535}, length 1..4
    let lv = [0u16, 1, 2, 3, 65535];
    for len in 1..=4usize {
        for seq in product_vec(&vec![5usize; len]) {
            let mut f = simple(&Fmt::Rgba, 0, 1);
            for (i, s) in seq.iter().enumerate() {
                let mut l = Layer::image(&format!("l{}", i));
                l.level = lv[*s];
                l.flags = if i % 2 == 0 { 3 } else { 2 };
                f.frames[0].push(Body::Layer(l));
            }
            f.frames[0].push(raw_cel((len - 1) as u16, 0, 0, 255, 1, 1, vec![1, 2, 3, 255]));
            v.push((format!("levels {:?}", seq.iter().map(|s| lv[*s]).collect::<Vec<_>>()), f.encode()));
        }
    }
    // a tilemap layer that names a tileset the file does not hold, with tilemap cels of 0 and more tiles
    for (fi, fmt) in fmts.iter().enumerate() {
        for missing in [1u32, 7, 0xFFFF_FFFF] {
            for (w, h) in [(0u16, 0u16), (0, 4), (4, 0), (1, 1), (2, 2)] {
                for with_other in [false, true] {
                    let mut f = simple(fmt, 0, 1);
                    if with_other {
                        f.frames[0].push(Body::Tileset(tileset(0, 2, 1, 1, tile_pixels(fmt, 2, 1, 1, 1, ir), "other")));
                    }
                    f.frames[0].push(Body::Layer(Layer::tilemap("m", missing)));
                    f.frames[0].push(tm_cel(0, 0, 0, 255, w, h, vec![0; w as usize * h as usize]));
                    v.push((format!("fmt{} tilemap layer on missing tileset {} with a {}x{} cel (other tileset present: {})", fi, missing, w, h, with_other), f.encode()));
                }
            }
        }
    }
    // tile words against tileset flag words and cel bitmask layouts: marker values, ids at and beyond the tile count
    for (fi, fmt) in fmts.iter().enumerate() {
        for tsflags in [2u32, 6, 2 | 8, 0xFFFF_FFFE] {
            for (li, (mid, mx, my, mr)) in [(0x1fff_ffffu32, 0x8000_0000u32, 0x4000_0000u32, 0x2000_0000u32), (0xffff_ffff, 0, 0, 0), (0x0000_ffff, 0x1_0000, 0x2_0000, 0x4_0000), (0x3, 0x4, 0x8, 0x10)].iter().enumerate() {
                for word in [0xffff_ffffu32, 0x1fff_ffff, 0xffff, 3, 4, 0x8000_0003, 0xe000_0000, 2, 0x7fff_ffff] {
                    let mut f = simple(fmt, 0, 1);
                    let mut ts = tileset(0, 3, 2, 2, tile_pixels(fmt, 3, 2, 2, 1, ir), "ts");
                    ts.flags = tsflags;
                    f.frames[0].push(Body::Tileset(ts));
                    f.frames[0].push(Body::Layer(Layer::tilemap("m", 0)));
                    let mut c = tm_cel(0, 0, 0, 255, 2, 1, vec![1, word]);
                    if let Body::Cel(cc) = &mut c {
                        if let CelBody::Tilemap { mask_id, mask_xflip, mask_yflip, mask_rot, .. } = &mut cc.body {
                            (*mask_id, *mask_xflip, *mask_yflip, *mask_rot) = (*mid, *mx, *my, *mr);
                        }
                    }
                    f.frames[0].push(c);
                    v.push((format!("fmt{} tileset.flags={:#x} mask layout {} tile word {:#x} (3 tiles)", fi, tsflags, li, word), f.encode()));
                }
            }
        }
    }
    for (fi, fmt) in fmts.iter().enumerate() {
        // b. cel layer index out of range
        for nl in [0usize, 1, 3] {
            for li in [nl as u16, nl as u16 + 1, 255, 256, 65535] {
                for kind in 0..3 {
                    let mut f = simple(fmt, nl, 2);
                    let body = match kind {
                        0 => raw_cel(li, 0, 0, 255, 2, 1, pixels(fmt, 2, 1, 1, ir)),
                        1 => zcel(li, 0, 0, 255, 2, 1, pixels(fmt, 2, 1, 1, ir), 6),
                        _ => link_cel(li, 0, 0, 255, 1),
                    };
                    f.frames[0].push(body);
                    if kind == 2 {
                        f.frames[1].push(raw_cel(li, 0, 0, 255, 1, 1, pixels(fmt, 1, 1, 1, ir)));
                    }
                    v.push((format!("fmt{} layers={} cel.layer={} kind={}", fi, nl, li, kind), f.encode()));
                }
            }
        }
        // c. link targets
        for target in ["self", "later", "empty", "linked", "tilemap", "nframes", "65535", "ok"] {
            let mut f = simple(fmt, 1, 3);
            f.frames[0].chunks.insert(0, Chunk::new(Body::Tileset(tileset(0, 2, 1, 1, tile_pixels(fmt, 2, 1, 1, 1, ir), "t"))));
            f.frames[0].push(Body::Layer(Layer::tilemap("tm", 0)));
            let (layer, tf): (u16, u16) = match target {
                "self" => (0, 0),
                "later" => (0, 2),
                "empty" => (0, 1),
                "linked" => (0, 1),
                "tilemap" => (1, 1),
                "nframes" => (0, 3),
                "65535" => (0, 65535),
                _ => (0, 2),
            };
            f.frames[0].push(link_cel(layer, 0, 0, 255, tf));
            if target == "later" || target == "ok" {
                f.frames[2].push(raw_cel(0, 0, 0, 255, 1, 1, pixels(fmt, 1, 1, 1, ir)));
            }
            if target == "linked" {
                f.frames[1].push(link_cel(0, 0, 0, 255, 2));
                f.frames[2].push(raw_cel(0, 0, 0, 255, 1, 1, pixels(fmt, 1, 1, 1, ir)));
            }
            if target == "tilemap" {
                f.frames[1].push(tm_cel(1, 0, 0, 255, 1, 1, vec![1]));
            }
            v.push((format!("fmt{} link-target={}", fi, target), f.encode()));
        }
        // d. payload pixel counts that disagree with the declared size
        for (w, h) in [(2u16, 2u16), (1, 1), (3, 1)] {
            let n = w as usize * h as usize;
            for actual in [0usize, n - 1, n + 1, 2 * n, n] {
                for kind in 0..4 {
                    let mut f = simple(fmt, 1, 1);
                    f.frames[0].chunks.insert(0, Chunk::new(Body::Tileset(tileset(0, 2, 1, 1, tile_pixels(fmt, 2, 1, 1, 1, ir), "t"))));
                    f.frames[0].push(Body::Layer(Layer::tilemap("tm", 0)));
                    match kind {
                        0 => {
                            f.frames[0].push(raw_cel(0, 0, 0, 255, w, h, pixels(fmt, actual, 1, 1, ir)));
                        }
                        1 => {
                            f.frames[0].push(zcel(0, 0, 0, 255, w, h, pixels(fmt, actual, 1, 1, ir), 6));
                        }
                        2 => {
                            f.frames[0].push(tm_cel(1, 0, 0, 255, w, h, vec![1; actual]));
                        }
                        _ => {
                            // tileset with `n` declared tiles of 1x1 but `actual` pixels
                            let ts = tileset(9, n as u32, 1, 1, pixels(fmt, actual, 1, 2, ir), "bad");
                            f.frames[0].push(Body::Tileset(ts));
                            f.frames[0].push(Body::Layer(Layer::tilemap("tm2", 9)));
                            f.frames[0].push(tm_cel(2, 0, 0, 255, 1, 1, vec![(n - 1) as u32]));
                        }
                    }
                    v.push((format!("fmt{} declared={}x{} actual={} carrier={}", fi, w, h, actual, kind), f.encode()));
                }
            }
            // odd byte counts for multi-byte pixel formats
            if fmt.bpp() > 1 {
                for extra in [1usize, fmt.bpp() - 1] {
                    let mut f = simple(fmt, 1, 1);
                    let mut d = pixels(fmt, n, 1, 1, ir);
                    d.truncate(d.len() - extra);
                    f.frames[0].push(zcel(0, 0, 0, 255, w, h, d, 6));
                    v.push((format!("fmt{} {}x{} payload short by {} bytes", fi, w, h, extra), f.encode()));
                }
            }
        }
        // e. tile ids out of range; f. zero tile sizes, zero tiles, overflowing products
        for id in [2u32, 3, 0x1fff_ffff, 0xffff_ffff, 0x2000_0001] {
            let mut f = simple(fmt, 0, 1);
            f.frames[0].push(Body::Tileset(tileset(0, 2, 2, 1, tile_pixels(fmt, 2, 2, 1, 1, ir), "t")));
            f.frames[0].push(Body::Layer(Layer::tilemap("tm", 0)));
            f.frames[0].push(tm_cel(0, 0, 0, 255, 2, 1, vec![1, id]));
            v.push((format!("fmt{} tile id {:#x} of 2", fi, id), f.encode()));
        }
        for (n, tw, th) in [(2u32, 0u16, 1u16), (2, 1, 0), (2, 0, 0), (0, 1, 1), (0, 0, 0), (65536, 256, 256), (0x1_0000, 65535, 65535), (0xFFFF_FFFF, 1, 1), (0x8000_0000, 2, 1), (3, 65535, 65535), (0xFFFF_FFFF, 65535, 65535), (0x4000_0000, 65535, 65535), (0xFFFF_FFFF, 65535, 16385)] {
            for with_cel in [false, true] {
                let mut f = simple(fmt, 0, 1);
                let px = if (n as u64) * (tw as u64) * (th as u64) <= 64 { tile_pixels(fmt, n, tw, th, 1, ir) } else { pixels(fmt, 4, 1, 1, ir) };
                f.frames[0].push(Body::Tileset(tileset(0, n, tw, th, px, "t")));
                f.frames[0].push(Body::Layer(Layer::tilemap("tm", 0)));
                if with_cel {
                    f.frames[0].push(tm_cel(0, 0, 0, 255, 1, 1, vec![0]));
                }
                v.push((format!("fmt{} tileset n={} tile={}x{} cel={}", fi, n, tw, th, with_cel), f.encode()));
            }
        }
        // g. palette ranges
        for first in [0u32, 1, 255, 256, 0x7FFF_FFFF, 0xFFFF_FFFE, 0xFFFF_FFFF] {
            for last in [0u32, 1, 2, 255, 256, 0x7FFF_FFFF, 0xFFFF_FFFE, 0xFFFF_FFFF] {
                let mut f = gen::file(2, 2, fmt, &[1]);
                f.frames[0].push(Body::Palette(Palette { size: None, first, last: Some(last), reserved: [0; 8], entries: pal_entries(3, 1) }));
                f.frames[0].push(Body::Layer(Layer::image("l")));
                v.push((format!("fmt{} palette first={} last={} (3 entries present)", fi, first, last), f.encode()));
            }
        }
        // h. zlib stream damage
        let good = zlib(&pixels(fmt, 4, 1, 1, ir), 6);
        let mut streams: Vec<(&str, Vec<u8>)> = vec![("empty", vec![]), ("one-byte", vec![0x78]), ("header-only", vec![0x78, 0x9c]), ("truncated", good[..good.len() - 3].to_vec()), ("half", good[..good.len() / 2].to_vec())];
        let mut g = good.clone();
        g.extend_from_slice(&[1, 2, 3, 4, 5]);
        streams.push(("trailing-garbage", g));
        let mut g = good.clone();
        let l = g.len();
        g[l - 1] ^= 0xFF;
        streams.push(("bad-adler", g));
        streams.push(("not-zlib", vec![0xFF; 16]));
        streams.push(("stored-huge-len", vec![0x78, 0x01, 0x01, 0xFF, 0xFF, 0x00, 0x00]));
        for (sn, st) in &streams {
            for kind in 0..3 {
                let mut f = simple(fmt, 1, 1);
                f.frames[0].chunks.insert(0, Chunk::new(Body::Tileset(tileset(0, 2, 1, 1, tile_pixels(fmt, 2, 1, 1, 1, ir), "t"))));
                f.frames[0].push(Body::Layer(Layer::tilemap("tm", 0)));
                match kind {
                    0 => {
                        f.frames[0].push(Body::Cel(Cel::new(0, 0, 0, 255, CelBody::Compressed { w: 2, h: 2, data: vec![], z: Zlib::Verbatim(st.clone()) })));
                    }
                    1 => {
                        if let Body::Cel(mut c) = tm_cel(1, 0, 0, 255, 1, 1, vec![1]) {
                            if let CelBody::Tilemap { z, .. } = &mut c.body {
                                *z = Zlib::Verbatim(st.clone());
                            }
                            f.frames[0].push(Body::Cel(c));
                        }
                    }
                    _ => {
                        let mut ts = tileset(5, 4, 1, 1, vec![], "z");
                        ts.z = Zlib::Verbatim(st.clone());
                        f.frames[0].push(Body::Tileset(ts));
                    }
                }
                v.push((format!("fmt{} zlib {} carrier={}", fi, sn, kind), f.encode()));
            }
        }
        // i./j. kind mismatches, missing tileset, duplicate cel, dangling user data, indexed without palette
        {
            let mut f = simple(fmt, 1, 1);
            f.frames[0].push(Body::Tileset(tileset(0, 2, 1, 1, tile_pixels(fmt, 2, 1, 1, 1, ir), "t")));
            f.frames[0].push(tm_cel(0, 0, 0, 255, 1, 1, vec![1]));
            v.push((format!("fmt{} tilemap cel on image layer", fi), f.encode()));
            let mut f = simple(fmt, 0, 1);
            f.frames[0].push(Body::Tileset(tileset(0, 2, 1, 1, tile_pixels(fmt, 2, 1, 1, 1, ir), "t")));
            f.frames[0].push(Body::Layer(Layer::tilemap("tm", 0)));
            f.frames[0].push(raw_cel(0, 0, 0, 255, 1, 1, pixels(fmt, 1, 1, 1, ir)));
            v.push((format!("fmt{} image cel on tilemap layer", fi), f.encode()));
            let mut f = simple(fmt, 0, 1);
            f.frames[0].push(Body::Layer(Layer::group("g")));
            f.frames[0].push(raw_cel(0, 0, 0, 255, 1, 1, pixels(fmt, 1, 1, 1, ir)));
            v.push((format!("fmt{} image cel on group layer", fi), f.encode()));
            for ts in [1u32, 0xFFFF_FFFF] {
                let mut f = simple(fmt, 0, 1);
                f.frames[0].push(Body::Tileset(tileset(0, 2, 1, 1, tile_pixels(fmt, 2, 1, 1, 1, ir), "t")));
                f.frames[0].push(Body::Layer(Layer::tilemap("tm", ts)));
                f.frames[0].push(tm_cel(0, 0, 0, 255, 1, 1, vec![1]));
                v.push((format!("fmt{} tilemap layer references missing tileset {}", fi, ts), f.encode()));
            }
            let mut f = simple(fmt, 1, 1);
            f.frames[0].push(raw_cel(0, 0, 0, 255, 1, 1, pixels(fmt, 1, 1, 1, ir)));
            f.frames[0].push(raw_cel(0, 1, 0, 255, 1, 1, pixels(fmt, 1, 1, 2, ir)));
            v.push((format!("fmt{} duplicate cel", fi), f.encode()));
            let mut f = gen::file(2, 2, fmt, &[1]);
            f.frames[0].push(Body::UserData(UserData::text("dangling")));
            v.push((format!("fmt{} dangling user data", fi), f.encode()));
            let mut f = simple(fmt, 1, 1);
            f.frames[0].push(tags(vec![Tag::new("a", 0, 0, 0)]));
            for k in 0..3 {
                f.frames[0].push(Body::UserData(UserData::text(&format!("ud{}", k))));
            }
            v.push((format!("fmt{} more user data than tags", fi), f.encode()));
            let mut f = simple(fmt, 1, 2);
            f.frames[1].push(tags(vec![Tag::new("late", 0, 0, 0)]));
            f.frames[1].push(Body::UserData(UserData::text("after late tags")));
            v.push((format!("fmt{} tags chunk in frame 1 followed by user data", fi), f.encode()));
        }
        // k. counts larger than the entries present
        {
            let mut f = simple(fmt, 1, 1);
            f.frames[0].push(Body::Tags(Tags { count: Some(65535), reserved: [0; 8], tags: vec![Tag::new("a", 0, 0, 0)] }));
            v.push((format!("fmt{} tags count 65535 with one entry", fi), f.encode()));
            for n in [2u32, 0x0100_0000, 0xFFFF_FFFF] {
                let mut f = simple(fmt, 1, 1);
                f.frames[0].push(Body::Slice(Slice { nkeys: Some(n), flags: 3, reserved: 0, name: Str::new("s"), keys: vec![key(0, 0, 0, 1, 1)] }));
                v.push((format!("fmt{} slice key count {} with one key", fi, n), f.encode()));
                let mut f = simple(fmt, 1, 1);
                f.frames[0].push(Body::ExternalFiles(ExternalFiles { count: Some(n), reserved: [0; 8], entries: vec![ExtFile { id: 1, ty: 0, reserved: [0; 7], name: Str::new("x") }] }));
                v.push((format!("fmt{} external file count {} with one entry", fi, n), f.encode()));
            }
            for n in [2u16, 255, 65535] {
                let mut f = simple(fmt, 1, 1);
                f.frames[0].push(Body::OldPalette04(OldPalette { npackets: Some(n), packets: vec![OldPacket { skip: 0, count: 1, colors: vec![[1, 2, 3]] }] }));
                v.push((format!("fmt{} legacy palette packet count {} with one packet", fi, n), f.encode()));
            }
            let mut f = simple(fmt, 0, 1);
            let mut l = Layer::image("name");
            l.name.len_override = Some(65535);
            f.frames[0].push(Body::Layer(l));
            v.push((format!("fmt{} layer name length 65535 beyond chunk", fi), f.encode()));
            let mut f = simple(fmt, 0, 1);
            let mut l = Layer::image("x");
            l.name = Str { bytes: vec![0xFF, 0xFE, 0x80], len_override: None };
            f.frames[0].push(Body::Layer(l));
            v.push((format!("fmt{} layer name not UTF-8", fi), f.encode()));
        }
        // l. header frame count vs frames present; frame/ chunk size fields
        for n in [0u16, 1, 3, 65535] {
            let mut f = simple(fmt, 1, 2);
            f.header.frames = Some(n);
            v.push((format!("fmt{} header says {} frames, 2 present", fi, n), f.encode()));
        }
        for sz in [0u32, 5, 15, 16, 17, 0x7FFF_FFFF, 0xFFFF_FFFF] {
            let mut f = simple(fmt, 1, 1);
            f.frames[0].size = Some(sz);
            v.push((format!("fmt{} frame size {}", fi, sz), f.encode()));
            let mut f = simple(fmt, 1, 1);
            f.frames[0].chunks.last_mut().unwrap().size = Some(sz);
            v.push((format!("fmt{} last chunk size {}", fi, sz), f.encode()));
        }
        // n. huge declared cel / tilemap dimensions with tiny payloads
        for (w, h) in [(65535u16, 65535u16), (65535, 1), (1, 65535), (0, 0), (0, 5), (256, 256)] {
            for kind in 0..3 {
                let mut f = simple(fmt, 1, 1);
                f.frames[0].chunks.insert(0, Chunk::new(Body::Tileset(tileset(0, 2, 1, 1, tile_pixels(fmt, 2, 1, 1, 1, ir), "t"))));
                f.frames[0].push(Body::Layer(Layer::tilemap("tm", 0)));
                match kind {
                    0 => f.frames[0].push(raw_cel(0, 0, 0, 255, w, h, pixels(fmt, 2, 1, 1, ir))),
                    1 => f.frames[0].push(zcel(0, 0, 0, 255, w, h, pixels(fmt, 2, 1, 1, ir), 6)),
                    _ => f.frames[0].push(tm_cel(1, 0, 0, 255, w, h, vec![1, 1])),
                };
                v.push((format!("fmt{} declared {}x{} with a 2-element payload, carrier={}", fi, w, h, kind), f.encode()));
            }
        }
    }
    fam("M3-inconsistent", "semantic inconsistencies re-encoded with consistent size fields: level sequences over {0,1,2,3,65535} up to length 4; cel layer index out of range; link targets {self, later, empty, linked, tilemap, #frames, 65535}; payload element counts {0,n-1,n+1,2n} for raw/zlib/tilemap/tileset; tile ids out of range; zero tile sizes / tile counts / overflowing tile products; palette (first,last) grid; damaged zlib streams; cel/layer kind mismatches; missing tileset; duplicate cel; dangling or surplus user data; counts above the entries present; string lengths beyond the chunk; non-UTF-8 names; frame count / frame size / chunk size lies; huge declared dimensions; 3 pixel formats", v)
}

/// M7: program-level faults: every chunk deleted, duplicated, swapped with its successor, moved to
/// the end of the next frame, retyped to each other known chunk type; every frame dropped / duplicated
pub fn m7() -> InputFam {
    let mut v: Vec<(String, Vec<u8>)> = Vec::new();
    let mut files: Vec<(String, File)> = gen::bases().into_iter().map(|(n, f)| (n.to_string(), f)).collect();
    files.push(("d1i".into(), gen::d1(&Fmt::Indexed(4))));
    files.push(("d1".into(), gen::d1(&Fmt::Rgba)));
    let types: [u16; 14] = [0x0004, 0x0011, 0x2004, 0x2005, 0x2006, 0x2007, 0x2008, 0x2016, 0x2017, 0x2018, 0x2019, 0x2020, 0x2022, 0x2023];
    for (bn, base) in &files {
        for fi in 0..base.frames.len() {
            let n = base.frames[fi].chunks.len();
            for ci in 0..n {
                let kind = base.frames[fi].chunks[ci].body.kind_name();
                let mut f = base.clone();
                f.frames[fi].chunks.remove(ci);
                v.push((format!("{} delete frame{} chunk{} ({})", bn, fi, ci, kind), f.encode()));
                let mut f = base.clone();
                let c = f.frames[fi].chunks[ci].clone();
                f.frames[fi].chunks.insert(ci, c);
                v.push((format!("{} duplicate frame{} chunk{} ({})", bn, fi, ci, kind), f.encode()));
                if ci + 1 < n {
                    let mut f = base.clone();
                    f.frames[fi].chunks.swap(ci, ci + 1);
                    v.push((format!("{} swap frame{} chunk{} ({}) with its successor", bn, fi, ci, kind), f.encode()));
                }
                if base.frames.len() > 1 {
                    let mut f = base.clone();
                    let c = f.frames[fi].chunks.remove(ci);
                    let to = (fi + 1) % base.frames.len();
                    f.frames[to].chunks.push(c);
                    v.push((format!("{} move frame{} chunk{} ({}) to the end of frame {}", bn, fi, ci, kind, to), f.encode()));
                }
                for t in types {
                    if t != base.frames[fi].chunks[ci].body.type_code() {
                        let mut f = base.clone();
                        f.frames[fi].chunks[ci].ty = Some(t);
                        v.push((format!("{} retype frame{} chunk{} ({}) as {:#06x}", bn, fi, ci, kind, t), f.encode()));
                    }
                }
            }
            // a tags chunk with 0 / 1 / 3 tags appended to this frame (the library reads tags from the first frame only)
            for k in [0usize, 1, 3] {
                let mut f = base.clone();
                f.frames[fi].push(gen::tags((0..k).map(|i| Tag::new(&format!("late{}", i), 0, 0, i as u8 % 3)).collect()));
                v.push((format!("{} a tags chunk with {} tags appended to frame {}", bn, k, fi), f.encode()));
            }
            let mut f = base.clone();
            f.frames.remove(fi);
            v.push((format!("{} drop frame {}", bn, fi), f.encode()));
            let mut f = base.clone();
            let fr = f.frames[fi].clone();
            f.frames.insert(fi, fr);
            v.push((format!("{} duplicate frame {}", bn, fi), f.encode()));
            let mut f = base.clone();
            f.frames[fi].chunks.reverse();
            v.push((format!("{} reverse the chunks of frame {}", bn, fi), f.encode()));
        }
    }
    fam("M7-program", "program-level faults on b1..b4 and D1 (indexed, RGBA), re-encoded with consistent sizes: every chunk deleted / duplicated / swapped with its successor / moved to the end of the next frame / retyped as each of the 13 other known chunk types; every frame dropped / duplicated / its chunks reversed / given an extra tags chunk of 0, 1 or 3 tags", v)
}


/// all string sites of a chunk body
fn strings_of(b: &mut Body) -> Vec<(&'static str, &mut Str)> {
    match b {
        Body::Layer(l) => vec![("layer name", &mut l.name)],
        Body::Tags(t) => t.tags.iter_mut().map(|t| ("tag name", &mut t.name)).collect(),
        Body::Palette(p) => p.entries.iter_mut().filter(|e| e.flags & 1 != 0).map(|e| ("palette entry name", &mut e.name)).collect(),
        Body::UserData(u) if u.flags & 1 != 0 => vec![("user data text", &mut u.text)],
        Body::Slice(s) => vec![("slice name", &mut s.name)],
        Body::Tileset(t) => vec![("tileset name", &mut t.name)],
        Body::ExternalFiles(e) => e.entries.iter_mut().map(|e| ("external file name", &mut e.name)).collect(),
        Body::Mask(m) => vec![("mask name", &mut m.name)],
        _ => vec![],
    }
}

/// string shapes: (label, bytes).  For every byte offset N >= 1 and every character width
/// c in {2,3,4} some shape of each total length has a character straddling offset N.
pub fn text_shapes() -> Vec<(String, Vec<u8>)> {
    let mut v: Vec<(String, Vec<u8>)> = Vec::new();
    for l in [0usize, 1, 2, 31, 32, 33, 39, 40, 41, 63, 64, 65, 99, 100, 101, 119, 120, 121, 127, 128, 129, 255, 256, 257, 1000, 65535] {
        v.push((format!("ascii x{}", l), vec![b'a'; l]));
    }
    let chars: [&str; 3] = ["\u{e9}", "\u{20ac}", "\u{1f600}"];
    for total in [50usize, 130, 300, 1100] {
        for ch in chars {
            let c = ch.len();
            for k in 0..c {
                let mut b = vec![b'a'; k];
                while b.len() < total {
                    b.extend_from_slice(ch.as_bytes());
                }
                v.push((format!("{} ascii + {}-byte chars to {} bytes", k, c, b.len()), b));
            }
        }
    }
    // mixed widths and not-UTF-8
    v.push(("mixed widths".into(), "a\u{e9}\u{20ac}\u{1f600}".repeat(40).into_bytes()));
    v.push(("lone continuation bytes".into(), vec![0x80; 45]));
    v.push(("truncated 4-byte sequence at the end".into(), { let mut b = vec![b'a'; 40]; b.extend_from_slice(&[0xf0, 0x9f, 0x98]); b }));
    v.push(("NUL bytes".into(), vec![0; 130]));
    v
}

/// M8: every string of the bases replaced by every text shape, alone and together with each
/// enum / index / flags field of the same chunk set to its type maximum
pub fn m8() -> InputFam {
    let shapes = Arc::new(text_shapes());
    // (base index, frame, chunk, site, shape, Option<field ordinal among the chunk's enum/index/flags fields>)
    let mut bases: Vec<(String, File)> = gen::bases().into_iter().map(|(n, f)| (n.to_string(), f)).collect();
    bases.push(("d1i".into(), gen::d1(&Fmt::Indexed(4))));
    bases.push(("d1".into(), gen::d1(&Fmt::Rgba)));
    let mut idx: Vec<(u8, u16, u16, u16, u16, Option<u8>)> = Vec::new();
    for (bi, (_, f)) in bases.iter_mut().enumerate() {
        let enc = f.encode_full(true);
        for fi in 0..f.frames.len() {
            for ci in 0..f.frames[fi].chunks.len() {
                let nsites = strings_of(&mut f.frames[fi].chunks[ci].body).len();
                let nfields = enc.fields.iter().filter(|x| x.frame == fi as u32 && x.chunk == ci as u32 && x.name != "chunk_type" && matches!(x.role, Role::Enum | Role::Index | Role::Flags)).count().min(8);
                for si in 0..nsites {
                    for sh in 0..shapes.len() {
                        idx.push((bi as u8, fi as u16, ci as u16, si as u16, sh as u16, None));
                        for k in 0..nfields {
                            idx.push((bi as u8, fi as u16, ci as u16, si as u16, sh as u16, Some(k as u8)));
                        }
                    }
                }
            }
        }
    }
    let bases = Arc::new(bases);
    let idx = Arc::new(idx);
    let build = {
        let (bases, idx, shapes) = (bases.clone(), idx.clone(), shapes.clone());
        move |i: usize| -> (String, Vec<u8>) {
            let (bi, fi, ci, si, sh, fld) = idx[i];
            let mut f = bases[bi as usize].1.clone();
            let site = {
                let mut sites = strings_of(&mut f.frames[fi as usize].chunks[ci as usize].body);
                let (nm, s) = sites.swap_remove(si as usize);
                s.bytes = shapes[sh as usize].1.clone();
                nm
            };
            let mut label = format!("{} frame{} chunk{} {}#{} := {}", bases[bi as usize].0, fi, ci, site, si, shapes[sh as usize].0);
            let enc = f.encode_full(fld.is_some());
            let mut bytes = enc.bytes;
            if let Some(k) = fld {
                if let Some(x) = enc.fields.iter().filter(|x| x.frame == fi as u32 && x.chunk == ci as u32 && x.name != "chunk_type" && matches!(x.role, Role::Enum | Role::Index | Role::Flags)).nth(k as usize) {
                    let max = if x.width >= 8 { u64::MAX } else { (1u64 << (8 * x.width as u32)) - 1 };
                    // "just out of range" for small enums, the type maximum otherwise
                    let v = if x.role == Role::Enum && x.width <= 2 { 19.min(max) } else { max };
                    bytes = patch(&bytes, x, v);
                    label.push_str(&format!(" and {}={}", x.label(), v));
                }
            }
            (label, bytes)
        }
    };
    let b2 = build.clone();
    InputFam {
        name: "M8-text".into(),
        what: format!("b1..b4 and D1 (indexed, RGBA): every string (layer, tag, slice, tileset, palette-entry, external-file and mask names, user-data texts) replaced by each of {} shapes — ASCII of 26 lengths around 32/40/64/100/120/128/256/65535, and 1100/300/130/50-byte runs of 2-, 3- and 4-byte characters behind 0..width-1 ASCII bytes (so that for every byte offset some shape has a character straddling it), mixed widths, invalid UTF-8, NULs — alone and together with each enum / index / flags field of the same chunk set out of range", shapes.len()),
        n: idx.len(),
        gen: Box::new(move |i| build(i).1),
        label: Box::new(move |i| b2(i).0),
    }
}

/// M5: tiny and constant inputs
pub fn m5() -> InputFam {
    let mut v: Vec<(String, Vec<u8>)> = vec![("empty".into(), vec![])];
    for a in 0..256u32 {
        v.push((format!("[{}]", a), vec![a as u8]));
    }
    for a in 0..65536u32 {
        v.push((format!("[{},{}]", a >> 8, a & 255), vec![(a >> 8) as u8, a as u8]));
    }
    for len in [3usize, 4, 5, 6, 7, 8, 16, 127, 128, 129, 143, 144, 145, 160, 300, 4096, 70000] {
        for b in [0u8, 1, 0x7f, 0x80, 0xff, 0xA5, 0xE0] {
            v.push((format!("{} x {:#x}", len, b), vec![b; len]));
        }
    }
    // a valid header followed by constant fill
    for len in [0usize, 1, 15, 16, 17, 22, 100] {
        for b in [0u8, 1, 0xff, 0xFA, 0xF1] {
            let mut x = gen::file(2, 2, &Fmt::Rgba, &[]).encode();
            x[6] = 1;
            x.extend(std::iter::repeat(b).take(len));
            v.push((format!("header(1 frame) + {} x {:#x}", len, b), x));
        }
    }
    fam("M5-tiny", "every byte string of length <= 2; constant-fill strings of 17 lengths x 7 byte values; a valid header (declaring one frame) followed by constant fill", v)
}

/// M6: scale (up to ~8 MiB inputs)
pub fn m6() -> InputFam {
    let fmt = Fmt::Rgba;
    let mut makers: Vec<(String, Box<dyn Fn() -> Vec<u8> + Sync + Send>)> = Vec::new();
    makers.push(("65535 empty frames".into(), Box::new(|| gen::file(2, 2, &Fmt::Rgba, &vec![1u16; 65535]).encode())));
    makers.push((
        "65535 flat layers at level 0".into(),
        Box::new(|| {
            let mut f = gen::file(2, 2, &Fmt::Rgba, &[1]);
            for _ in 0..65535 {
                f.frames[0].push(Body::Layer(Layer::image("l")));
            }
            f.frames[0].push(raw_cel(65534, 0, 0, 255, 1, 1, vec![1, 2, 3, 255]));
            f.encode()
        }),
    ));
    makers.push((
        "65534 layers at level 1 under one group".into(),
        Box::new(|| {
            let mut f = gen::file(2, 2, &Fmt::Rgba, &[1]);
            f.frames[0].push(Body::Layer(Layer::group("g")));
            for _ in 0..65534 {
                let mut l = Layer::image("l");
                l.level = 1;
                f.frames[0].push(Body::Layer(l));
            }
            f.frames[0].push(raw_cel(65534, 0, 0, 255, 1, 1, vec![1, 2, 3, 255]));
            f.encode()
        }),
    ));
    makers.push(("65535-deep nesting chain".into(), Box::new(|| crate::props::c09::chain_sprite(65535, Some(30000)).encode())));
    makers.push((
        "65535 tags".into(),
        Box::new(|| {
            let mut f = gen::file(2, 2, &Fmt::Rgba, &[1]);
            f.frames[0].push(tags((0..65535u32).map(|i| Tag::new("t", i as u16, 0, (i % 3) as u8)).collect()));
            f.encode()
        }),
    ));
    makers.push((
        "65535 tags, each with a user-data record, and one record more".into(),
        Box::new(|| {
            let mut f = gen::file(2, 2, &Fmt::Rgba, &[1]);
            f.frames[0].push(tags((0..65535u32).map(|i| Tag::new("t", 0, 0, (i % 3) as u8)).collect()));
            for i in 0..65536u32 {
                f.frames[0].push(Body::UserData(UserData::color([i as u8, (i >> 8) as u8, 1, 255])));
            }
            f.encode()
        }),
    ));
    makers.push((
        "65535 tags, each with a user-data record".into(),
        Box::new(|| {
            let mut f = gen::file(2, 2, &Fmt::Rgba, &[1]);
            f.frames[0].push(tags((0..65535u32).map(|i| Tag::new("t", 0, 0, (i % 3) as u8)).collect()));
            for i in 0..65535u32 {
                f.frames[0].push(Body::UserData(UserData::color([i as u8, (i >> 8) as u8, 1, 255])));
            }
            f.encode()
        }),
    ));
    makers.push((
        "100000 slices".into(),
        Box::new(|| {
            let mut f = gen::file(2, 2, &Fmt::Rgba, &[1]);
            for i in 0..100_000 {
                f.frames[0].push(slice("s", 0, vec![key(i, 0, 0, 1, 1)]));
            }
            f.encode()
        }),
    ));
    makers.push((
        "one frame with 1000000 ignorable chunks".into(),
        Box::new(|| {
            let mut f = gen::file(2, 2, &Fmt::Rgba, &[1]);
            for _ in 0..1_000_000 {
                f.frames[0].push(Body::Path);
            }
            f.encode()
        }),
    ));
    makers.push((
        "65535 frames x 1 layer with a linked cel in every frame".into(),
        Box::new(|| {
            let mut f = gen::file(2, 2, &Fmt::Rgba, &vec![1u16; 65535]);
            f.frames[0].push(Body::Layer(Layer::image("l")));
            f.frames[0].push(raw_cel(0, 0, 0, 255, 1, 1, vec![1, 2, 3, 255]));
            for i in 1..65535 {
                f.frames[i].push(link_cel(0, 0, 0, 255, 0));
            }
            f.encode()
        }),
    ));
    makers.push((
        "2000 frames x 2000 layers, one cel on the top layer of every frame".into(),
        Box::new(|| {
            let mut f = gen::file(2, 2, &Fmt::Rgba, &vec![1u16; 2000]);
            for _ in 0..2000 {
                f.frames[0].push(Body::Layer(Layer::image("l")));
            }
            for i in 0..2000 {
                f.frames[i].push(raw_cel(1999, 0, 0, 255, 1, 1, vec![1, 2, 3, 255]));
            }
            f.encode()
        }),
    ));
    makers.push((
        "user data with a 65535-byte text on each of 100 layers".into(),
        Box::new(|| {
            let mut f = gen::file(2, 2, &Fmt::Rgba, &[1]);
            let t = "x".repeat(65535);
            for _ in 0..100 {
                f.frames[0].push(Body::Layer(Layer::image("l")));
                f.frames[0].push(Body::UserData(UserData::text(&t)));
            }
            f.encode()
        }),
    ));
    makers.push((
        "palette with 1000000 entries".into(),
        Box::new(|| {
            let mut f = gen::file(2, 2, &Fmt::Rgba, &[1]);
            f.frames[0].push(new_palette(0, pal_entries(1_000_000, 1)));
            f.encode()
        }),
    ));
    let _ = fmt;
    let makers = Arc::new(makers);
    let m2 = makers.clone();
    InputFam { name: "M6-scale".into(), what: "large well-formed structures within an 8 MiB input cap: 65535 empty frames; 65535 flat layers; 65534 siblings under one group (quadratic parent search); a 65535-deep nesting chain; 65535 tags; 65535 tags each with a user-data record, with and without one record more; 100,000 slices; 1,000,000 ignorable chunks in one frame; 65535 linked cels; a 2000 x 2000 frame-by-layer table with one cel per frame on the top layer; 100 maximal user-data texts; a 1,000,000-entry palette".into(), n: makers.len(), gen: Box::new(move |i| (makers[i].1)()), label: Box::new(move |i| m2[i].0.clone()) }
}

/// prefixes of the bases (shared with C13) — for C04/C05 only "no panic / usable if it loads"
pub fn m4(bases: &[Based]) -> Vec<InputFam> {
    let mut out = Vec::new();
    for b in bases {
        if b.bytes.len() > 100_000 {
            continue;
        }
        let bytes = Arc::new(b.bytes.clone());
        let nm = b.name.clone();
        let by = bytes.clone();
        out.push(InputFam { name: format!("M4-prefix-{}", b.name), what: format!("{}: every strict prefix", b.name), n: bytes.len(), gen: Box::new(move |k| by[..k].to_vec()), label: Box::new(move |k| format!("{}[..{}]", nm, k)) });
    }
    out
}

pub fn all_families(tier: Tier) -> Vec<InputFam> {
    let thorough = tier == Tier::Thorough;
    let bases = based_files(thorough);
    let gen_bases: Vec<Based> = based_files(false);
    let mut v = Vec::new();
    let n_m1 = if thorough { 5 } else { 3 };
    v.extend(m1(&gen_bases[..n_m1], true));
    if thorough {
        v.extend(m1(&bases[6..], false));
    }
    v.extend(m2(&gen_bases, false));
    if thorough {
        v.extend(m2(&bases[6..], false).into_iter().filter(|f| f.name.starts_with("M2-field")));
        v.extend(m2(&gen_bases[..1], true).into_iter().filter(|f| f.name.starts_with("M2-pairs")).map(|mut f| {
            f.name = format!("{}-allfields", f.name);
            f
        }));
    }
    v.push(m3());
    v.push(m7());
    v.push(m8());
    v.extend(m4(&gen_bases));
    v.push(m5());
    v.push(m6());
    v
}
