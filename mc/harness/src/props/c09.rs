//! C09 — layer parents and visibility follow the nesting levels.
use crate::common::*;
use crate::worker::{self, Pool, Status};
use mc_core::ase::*;
use mc_core::explore::*;
use mc_core::gen::{self, *};
use mc_core::obs::Want;
use mc_core::sem::Fmt;
use rayon::prelude::*;
use serde_json::json;

/// conform, but with the per-cell observations blanked on both sides (layers, frames, lookups remain)
fn conform_projected(ctx: &Ctx, family: &str, case: &dyn Fn() -> String, f: &File, want: &Want) -> bool {
    if !ctx.wants(family, case) {
        return true;
    }
    let semv = mc_core::sem::interpret(f).expect("inside the model");
    let mut w = want.clone();
    mc_core::sem::default_probes(&semv, &mut w);
    w.cel_images = false;
    let mut pred = mc_core::sem::predict(&semv, &w).obs;
    let bytes = f.encode();
    ctx.eval(semv.layers.len() as u64 * 12);
    match load(&bytes) {
        Loaded::Ok(file) => {
            let mut o = crate::observe::observe(&file, &w);
            o.cels.clear();
            pred.cels.clear();
            o.routes_agree = true;
            o.route_mismatch = None;
            ctx.outcome(hash64(&o.frames));
            if o != pred {
                let d = mc_core::obs::first_diff(&pred, &o);
                ctx.violation(Violation { family: family.into(), case: case(), sig: format!("mismatch:{}", sig_of(d.split(" : ").next().unwrap_or(""))), detail: d, bytes: None, extra: json!({}) });
                return false;
            }
            true
        }
        Loaded::Err(e) => {
            ctx.violation(Violation { family: family.into(), case: case(), sig: format!("load-err:{}", sig_of(&e.to_string())), detail: format!("well-formed file refused: {}", e), bytes: None, extra: json!({}) });
            false
        }
        Loaded::Panic(m) => {
            ctx.violation(Violation { family: family.into(), case: case(), sig: format!("load-panic:{}", sig_of(&m)), detail: m, bytes: None, extra: json!({}) });
            false
        }
    }
}

/// all level sequences of length n forming a forest (first 0, each <= predecessor + 1)
pub fn forests(n: usize) -> Vec<Vec<u16>> {
    let mut out = Vec::new();
    fn rec(n: usize, cur: &mut Vec<u16>, out: &mut Vec<Vec<u16>>) {
        if cur.len() == n {
            out.push(cur.clone());
            return;
        }
        let max = if cur.is_empty() { 0 } else { cur[cur.len() - 1] + 1 };
        for l in 0..=max {
            cur.push(l);
            rec(n, cur, out);
            cur.pop();
        }
    }
    rec(n, &mut Vec::new(), &mut out);
    out
}

/// internal nodes = group layers, leaves = image layers with a 1x1 opaque cel at pixel i
pub fn forest_sprite(levels: &[u16], vis: u32) -> File {
    let n = levels.len();
    let fmt = Fmt::Rgba;
    let mut f = gen::file(n as u16, 1, &fmt, &[10]);
    for i in 0..n {
        let has_child = i + 1 < n && levels[i + 1] > levels[i];
        let mut l = if has_child { Layer::group(&format!("n{}", i)) } else { Layer::image(&format!("n{}", i)) };
        l.level = levels[i];
        l.flags = if vis >> i & 1 == 1 { 3 } else { 2 };
        f.frames[0].push(Body::Layer(l));
    }
    for i in 0..n {
        let has_child = i + 1 < n && levels[i + 1] > levels[i];
        if !has_child {
            f.frames[0].push(raw_cel(i as u16, i as i16, 0, 255, 1, 1, vec![(10 + i * 20) as u8, (200 - i * 9) as u8, (i * 31) as u8, 255]));
        }
    }
    f
}

pub fn chain_sprite(depth: usize, hidden_at: Option<usize>) -> File {
    let fmt = Fmt::Rgba;
    let mut f = gen::file(1, 1, &fmt, &[10]);
    for i in 0..depth {
        let mut l = if i + 1 < depth { Layer::group("g") } else { Layer::image("leaf") };
        l.level = i as u16;
        l.flags = if hidden_at == Some(i) { 2 } else { 3 };
        f.frames[0].push(Body::Layer(l));
    }
    f.frames[0].push(raw_cel((depth - 1) as u16, 0, 0, 255, 1, 1, vec![9, 8, 7, 255]));
    f
}

pub fn run(ctx: &Ctx) -> i32 {
    let thorough = ctx.tier == Tier::Thorough;
    let maxn = if thorough { 11 } else { 8 };
    let want = Want { tilemaps: false, tileset_images: false, ..Want::all() };
    for n in 1..=maxn {
        let fam = format!("forest-n{}", n);
        if !ctx.wants_family(&fam) {
            continue;
        }
        let fs = forests(n);
        ctx.family(&fam, fs.len() as u64 * (1u64 << n), &format!("all {} forest level sequences of {} layers x all 2^{} visible-flag assignments; parent(), is_visible() and the frame image (one opaque pixel per leaf) compared with the model", fs.len(), n, n), true);
        fs.par_iter().for_each(|lv| {
            for vis in 0..(1u32 << n) {
                let case = || format!("{:?} vis={:0w$b}", lv, vis, w = n);
                if !ctx.wants(&fam, &case) {
                    continue;
                }
                let f = forest_sprite(lv, vis);
                conform(ctx, &fam, &case, &f, &want);
            }
        });
        if n == 4 {
            ctx.sample(json!({"family": fam, "case": "[0, 1, 2, 1] vis=1011", "meaning": "levels of the 4 layers and their visible flags (bit i = layer i)"}));
        }
    }
    // leaves with and without a cel: every subset of leaves present, every visibility assignment
    let maxp = if thorough { 7 } else { 6 };
    for n in 2..=maxp {
        let fam = format!("forest-presence-n{}", n);
        if !ctx.wants_family(&fam) {
            continue;
        }
        let fs = forests(n);
        let mut total = 0u64;
        for lv in &fs {
            let leaves = (0..n).filter(|i| !(i + 1 < n && lv[i + 1] > lv[*i])).count();
            total += (1u64 << n) * (1u64 << leaves);
        }
        ctx.family(&fam, total, &format!("all {} forests of {} layers x all visible-flag assignments x every subset of the leaves holding a cel (the others are empty in that frame); frame image compared with the model", fs.len(), n), true);
        fs.par_iter().for_each(|lv| {
            let leaf_idx: Vec<usize> = (0..n).filter(|i| !(i + 1 < n && lv[i + 1] > lv[*i])).collect();
            for vis in 0..(1u32 << n) {
                for pres in 0..(1u32 << leaf_idx.len()) {
                    let case = || format!("{:?} vis={:0w$b} present={:b}", lv, vis, pres, w = n);
                    if !ctx.wants(&fam, &case) {
                        continue;
                    }
                    let mut f = forest_sprite(lv, vis);
                    // drop the cels of the leaves that are absent
                    let absent: Vec<u16> = leaf_idx.iter().enumerate().filter(|(k, _)| pres >> k & 1 == 0).map(|(_, i)| *i as u16).collect();
                    f.frames[0].chunks.retain(|c| !matches!(&c.body, Body::Cel(c) if absent.contains(&c.layer)));
                    conform(ctx, &fam, &case, &f, &want);
                }
            }
        });
    }


    // overlapping leaves: every leaf holds an opaque cel that covers the whole canvas
    let maxc = if thorough { 8 } else { 6 };
    for n in 2..=maxc {
        let fam = format!("forest-cover-n{}", n);
        if !ctx.wants_family(&fam) {
            continue;
        }
        let fs = forests(n);
        ctx.family(&fam, fs.len() as u64 * (1u64 << n) * 3, &format!("all {} forests of {} layers x all visible-flag assignments x cel shape {{exactly the 2x2 canvas, overhanging it on all sides, one pixel short}}: every leaf holds a fully opaque Normal-mode cel at full opacity in its own colour, so the frame shows the topmost visible leaf", fs.len(), n), true);
        fs.par_iter().for_each(|lv| {
            for vis in 0..(1u32 << n) {
                for shape in 0..3u8 {
                    let case = || format!("{:?} vis={:0w$b} shape={}", lv, vis, shape, w = n);
                    if !ctx.wants(&fam, &case) {
                        continue;
                    }
                    let mut f = forest_sprite(lv, vis);
                    f.header.width = 2;
                    f.header.height = 2;
                    for c in f.frames[0].chunks.iter_mut() {
                        if let Body::Cel(cel) = &mut c.body {
                            let i = cel.layer as usize;
                            let col = [(10 + i * 20) as u8, (200 - i * 9) as u8, (i * 31) as u8, 255];
                            let (x, y, w, h) = match shape {
                                0 => (0i16, 0i16, 2u16, 2u16),
                                1 => (-1, -1, 4, 4),
                                _ => (0, 0, 2, 1),
                            };
                            cel.x = x;
                            cel.y = y;
                            cel.body = CelBody::Raw { w, h, data: col.iter().cycle().take(w as usize * h as usize * 4).copied().collect() };
                        }
                    }
                    conform(ctx, &fam, &case, &f, &want);
                }
            }
        });
    }


    // layer flag words other than visible / hidden: only bit 0 decides visibility
    let maxf = if thorough { 5 } else { 4 };
    for n in 1..=maxf {
        let fam = format!("forest-flags-n{}", n);
        if !ctx.wants_family(&fam) {
            continue;
        }
        let words: [u16; 6] = [3, 2, 1 | 0x40, 0x40 | 2, 1 | 4 | 8 | 0x10 | 0x20, 0xFFFE];
        let fs = forests(n);
        let combos = product_vec(&vec![words.len(); n]);
        ctx.family(&fam, (fs.len() * combos.len()) as u64, &format!("all {} forests of {} layers x every assignment of the flag words {{visible+editable, editable only, visible+reference, reference+editable (hidden), visible+locked+background+continuous+collapsed, all bits but visible}} to the layers: is_visible() and the frame image depend on bit 0 of the layer and of its ancestors only", fs.len(), n), true);
        fs.par_iter().for_each(|lv| {
            for c in &combos {
                let case = || format!("{:?} flags={:?}", lv, c.iter().map(|i| words[*i]).collect::<Vec<_>>());
                if !ctx.wants(&fam, &case) {
                    continue;
                }
                let mut f = forest_sprite(lv, 0);
                let mut k = 0;
                for ch in f.frames[0].chunks.iter_mut() {
                    if let Body::Layer(l) = &mut ch.body {
                        l.flags = words[c[k]];
                        k += 1;
                    }
                }
                conform(ctx, &fam, &case, &f, &want);
            }
        });
    }


    // leaves whose cel in the second frame is a LINKED cel: hidden layers contribute nothing there either
    let maxl = if thorough { 7 } else { 6 };
    for n in 1..=maxl {
        let fam = format!("forest-links-n{}", n);
        if !ctx.wants_family(&fam) {
            continue;
        }
        let fs = forests(n);
        ctx.family(&fam, fs.len() as u64 * (1u64 << n), &format!("all {} forests of {} layers x all visible-flag assignments, two frames: every leaf holds its pixel in frame 0 and a linked cel (-> frame 0) in frame 1; both frame images compared with the model", fs.len(), n), true);
        fs.par_iter().for_each(|lv| {
            for vis in 0..(1u32 << n) {
                let case = || format!("{:?} vis={:0w$b} linked second frame", lv, vis, w = n);
                if !ctx.wants(&fam, &case) {
                    continue;
                }
                let mut f = forest_sprite(lv, vis);
                let mut second = Frame::new(20);
                for c in &f.frames[0].chunks {
                    if let Body::Cel(cel) = &c.body {
                        second.push(link_cel(cel.layer, cel.x, cel.y, cel.opacity, 0));
                    }
                }
                f.frames.push(second);
                conform(ctx, &fam, &case, &f, &want);
            }
        });
    }


    // parents that are image or tilemap layers (the parent is the nearest preceding layer of a smaller level, whatever its type)
    let maxg = if thorough { 6 } else { 5 };
    for n in 2..=maxg {
        let fam = format!("forest-parent-kinds-n{}", n);
        if !ctx.wants_family(&fam) {
            continue;
        }
        let fs = forests(n);
        ctx.family(&fam, fs.len() as u64 * (1u64 << n) * 2, &format!("all {} forests of {} layers x all visible-flag assignments, with every inner node an IMAGE layer (kind 0) or alternately a tilemap / image layer (kind 1) instead of a group; inner nodes hold no cels", fs.len(), n), true);
        fs.par_iter().for_each(|lv| {
            for vis in 0..(1u32 << n) {
                for kind in 0..2u8 {
                    let case = || format!("{:?} vis={:0w$b} inner-kind={}", lv, vis, kind, w = n);
                    if !ctx.wants(&fam, &case) {
                        continue;
                    }
                    let mut f = forest_sprite(lv, vis);
                    f.frames[0].chunks.insert(0, Chunk::new(Body::Tileset(tileset(0, 2, 1, 1, tile_pixels(&Fmt::Rgba, 2, 1, 1, 2, (0, 0)), "t"))));
                    let mut k = 0;
                    for ch in f.frames[0].chunks.iter_mut() {
                        if let Body::Layer(l) = &mut ch.body {
                            if l.ty == 1 {
                                if kind == 1 && k % 2 == 0 {
                                    l.ty = 2;
                                    l.tileset = 0;
                                } else {
                                    l.ty = 0;
                                }
                                k += 1;
                            }
                        }
                    }
                    conform(ctx, &fam, &case, &f, &want);
                }
            }
        });
    }


    // cel chunks carrying a non-zero z-index: hidden layers contribute nothing whatever the z-index says
    let maxz = if thorough { 6 } else { 5 };
    for n in 2..=maxz {
        let fam = format!("forest-zindex-n{}", n);
        if !ctx.wants_family(&fam) {
            continue;
        }
        let fs = forests(n);
        ctx.family(&fam, fs.len() as u64 * (1u64 << n) * 2, &format!("all {} forests of {} layers x all visible-flag assignments x two z-index patterns (+1, -1, +2, -2 ... / all -1) on the leaves' cel chunks", fs.len(), n), true);
        fs.par_iter().for_each(|lv| {
            for vis in 0..(1u32 << n) {
                for pat in 0..2u8 {
                    let case = || format!("{:?} vis={:0w$b} z-pattern={}", lv, vis, pat, w = n);
                    if !ctx.wants(&fam, &case) {
                        continue;
                    }
                    let mut f = forest_sprite(lv, vis);
                    let mut k = 0usize;
                    for ch in f.frames[0].chunks.iter_mut() {
                        if let Body::Cel(c) = &mut ch.body {
                            c.z_index = if pat == 0 { [1i16, -1, 2, -2, 3, -3][k % 6] } else { -1 };
                            k += 1;
                        }
                    }
                    conform(ctx, &fam, &case, &f, &want);
                }
            }
        });
    }

    // wide groups: a parent that lies more than 255 / 256 layers before its child
    if ctx.wants_family("wide-groups") {
        let mut cases: Vec<(usize, u32, usize)> = Vec::new();
        for k in [1usize, 2, 254, 255, 256, 257, 300, 1000] {
            for flags in 0..4u32 {
                for shape in 0..3usize {
                    cases.push((k, flags, shape));
                }
            }
        }
        ctx.family("wide-groups", cases.len() as u64, "a group with k children, k in {1,2,254,255,256,257,300,1000} (shape 0), the same nested inside an outer group (shape 1), and k empty sub-groups followed by one leaf of the outer group (shape 2); group / outer flags in all 4 combinations; every child's parent(), is_visible() and pixel compared with the model", true);
        cases.par_iter().for_each(|(k, flags, shape)| {
            let case = || format!("k={} flags={:02b} shape={}", k, flags, shape);
            if !ctx.wants("wide-groups", &case) {
                return;
            }
            let fmt = Fmt::Rgba;
            let mut f = gen::file((*k).min(1200) as u16 + 1, 1, &fmt, &[10]);
            let mut idx = 0u16;
            let mut cels: Vec<u16> = Vec::new();
            let vis = |b: u32| if flags >> b & 1 == 1 { 3u16 } else { 2 };
            let base_level = if *shape >= 1 {
                let mut o = Layer::group("outer");
                o.flags = vis(1);
                f.frames[0].push(Body::Layer(o));
                idx += 1;
                1
            } else {
                0
            };
            if *shape <= 1 {
                let mut g = Layer::group("g");
                g.level = base_level;
                g.flags = vis(0);
                f.frames[0].push(Body::Layer(g));
                idx += 1;
                for i in 0..*k {
                    let mut l = Layer::image(&format!("c{}", i));
                    l.level = base_level + 1;
                    l.flags = if i % 7 == 3 { 2 } else { 3 };
                    f.frames[0].push(Body::Layer(l));
                    cels.push(idx);
                    idx += 1;
                }
            } else {
                for i in 0..*k {
                    let mut g = Layer::group(&format!("e{}", i));
                    g.level = 1;
                    g.flags = vis(0);
                    f.frames[0].push(Body::Layer(g));
                    idx += 1;
                }
            }
            // one more leaf directly under the outermost open group (or at top level)
            let mut last = Layer::image("last");
            last.level = base_level;
            f.frames[0].push(Body::Layer(last));
            cels.push(idx);
            for (n, li) in cels.iter().enumerate() {
                f.frames[0].push(raw_cel(*li, (n % 1201) as i16, 0, 255, 1, 1, vec![(n % 251) as u8, 200, (n / 251) as u8, 255]));
            }
            conform(ctx, "wide-groups", &case, &f, &want);
        });
    }

    // more layers than a 16-bit index can address: layer 65536+k must not be confused with layer k
    if ctx.wants_family("many-layers") {
        let cases: Vec<(usize, u32)> = vec![(65536, 0), (65537, 1), (65544, 0), (65544, 1), (65544, 2), (70000, 1)];
        ctx.family("many-layers", cases.len() as u64, "flat sprites with 65536 / 65537 / 65544 / 70000 layers: the first 8 layers hold cels and are hidden (pattern 0: all hidden and the rest visible; 1: alternating; 2: inside a hidden group), the layers beyond 65535 are visible; parent(), is_visible() and the frame image vs the model (structure of the first 300 and last 300 layers compared in full)", true);
        cases.par_iter().for_each(|(n, pat)| {
            let case = || format!("layers={} pattern={}", n, pat);
            if !ctx.wants("many-layers", &case) {
                return;
            }
            let fmt = Fmt::Rgba;
            let mut f = gen::file(8, 1, &fmt, &[10]);
            let mut first = 0usize;
            if *pat == 2 {
                let mut g = Layer::group("hidden-group");
                g.flags = 2;
                f.frames[0].push(Body::Layer(g));
                first = 1;
            }
            for i in first..*n {
                let mut l = Layer::image("");
                if i < 8 + first {
                    l.level = if *pat == 2 { 1 } else { 0 };
                    l.flags = match pat {
                        0 => 2,
                        1 => if i % 2 == 0 { 2 } else { 3 },
                        _ => 3,
                    };
                }
                f.frames[0].push(Body::Layer(l));
            }
            for i in 0..8usize {
                f.frames[0].push(raw_cel((i + first) as u16, i as i16, 0, 255, 1, 1, vec![(i * 30) as u8, 255, 0, 255]));
            }
            // parents, visibility and the frame image; the per-cell observations of 65,000+ layers are C19's business
            let c = conform_projected(ctx, "many-layers", &case, &f, &want);
            let _ = c;
        });
    }

    // deep chains, isolated in worker processes on 2 MiB threads
    if ctx.wants_family("chains") {
        let mut cases: Vec<(usize, Option<usize>)> = Vec::new();
        for d in [1usize, 2, 3, 4, 5, 6, 7, 8, 255, 256, 4096, 20000, 65535] {
            cases.push((d, None));
            cases.push((d, Some(0)));
            cases.push((d, Some(d / 2)));
            cases.push((d, Some(d - 1)));
        }
        let profiles: Vec<&str> = if thorough { vec!["checked", "unopt", "plain"] } else { vec!["checked"] };
        ctx.family("chains", (cases.len() * profiles.len()) as u64, "single nesting chains of depth {1..8,255,256,4096,20000,65535} with the hidden flag nowhere / at the root / in the middle / at the leaf; load + full walk on a 2 MiB thread in a worker process", true);
        for prof in profiles {
            let pool = Pool::new(prof, 8, 120.0);
            pool.run(
                cases.len(),
                &|i| {
                    let (d, h) = cases[i];
                    (worker::KIND_LOAD_WALK, 4 << 30, chain_sprite(d, h).encode())
                },
                &|i, bytes, r| {
                    let (d, h) = cases[i];
                    let case = || format!("{} depth={} hidden_at={:?}", prof, d, h);
                    if !ctx.wants("chains", &case) {
                        return;
                    }
                    ctx.eval(d as u64 * 12);
                    ctx.outcome(hash64(&(worker::status_sig(&r), r.digest)));
                    if r.status != Status::Ok {
                        ctx.violation(Violation { family: "chains".into(), case: case(), sig: worker::status_sig(&r), detail: format!("depth-{} chain: {:?} {}", d, r.status, r.msg), bytes: if bytes.len() < 200_000 { Some(bytes.to_vec()) } else { None }, extra: json!({"profile": prof}) });
                    }
                },
            );
        }
        // and the values: chains up to 4096 also go through the predicted-vs-observed oracle
        for (d, h) in cases.iter().filter(|(d, _)| *d <= 4096) {
            let case = || format!("conform depth={} hidden_at={:?}", d, h);
            if !ctx.wants("chains", &case) {
                continue;
            }
            let f = chain_sprite(*d, *h);
            std::thread::scope(|s| {
                std::thread::Builder::new().stack_size(256 << 20).spawn_scoped(s, || conform(ctx, "chains", &case, &f, &want)).unwrap();
            });
        }
    }
    ctx.finish()
}
