//! C10 — user data attaches to the entity it follows, and to nothing else.
//! Explicit-state exploration of the attachment automaton: every enabled event history
//! up to a depth, each encoded as a real multi-frame file and loaded.
use crate::common::*;
use mc_core::ase::*;
use mc_core::explore::*;
use mc_core::gen::{self, *};
use mc_core::obs::Want;
use mc_core::sem::Fmt;
use rayon::prelude::*;
use serde_json::json;

#[derive(Clone, Copy, Debug, PartialEq, Eq, Hash)]
pub enum Ev {
    Layer,
    Cel,
    Slice,
    Tags,
    Legacy04,
    Legacy11,
    Palette,
    Ignorable,
    NextFrame,
    /// user data with payload shape 0 none, 1 text, 2 colour, 3 both; 4 = "rotate by record number"
    Ud(u8),
}

const PRELUDE_LAYERS: usize = 6;

/// Abstract state of the model automaton, used only to decide which events are enabled.
#[derive(Clone, Debug)]
struct St {
    frame: usize,
    next_cel_layer: usize,
    nlayers: usize,
    tags_seen: bool,
    palette_seen: bool,
    /// context: 0 none, 1 entity without record, 2 entity that already has its record, 3 tag i (records used, n)
    ctx_free: bool,
    tag_ctx: Option<(usize, usize)>,
    sprite_has_record: bool,
    ctx_is_sprite: bool,
}

fn enabled(st: &St, e: Ev) -> bool {
    match e {
        Ev::Layer | Ev::Slice | Ev::Ignorable | Ev::Legacy04 | Ev::Legacy11 => true,
        Ev::NextFrame => st.frame < 3,
        Ev::Cel => st.next_cel_layer < st.nlayers,
        Ev::Tags => st.frame == 0 && !st.tags_seen,
        Ev::Palette => !st.palette_seen,
        Ev::Ud(_) => match st.tag_ctx {
            Some((used, n)) => used < n,
            None => st.ctx_free,
        },
    }
}

fn step(st: &mut St, e: Ev) {
    match e {
        Ev::Layer => {
            st.nlayers += 1;
            st.ctx_free = true;
            st.tag_ctx = None;
            st.ctx_is_sprite = false;
        }
        Ev::Cel => {
            st.next_cel_layer += 1;
            st.ctx_free = true;
            st.tag_ctx = None;
            st.ctx_is_sprite = false;
        }
        Ev::Slice => {
            st.ctx_free = true;
            st.tag_ctx = None;
            st.ctx_is_sprite = false;
        }
        Ev::Tags => {
            st.tags_seen = true;
            st.tag_ctx = Some((0, 2));
            st.ctx_is_sprite = false;
        }
        Ev::Legacy04 | Ev::Legacy11 => {
            st.tag_ctx = None;
            st.ctx_is_sprite = true;
            st.ctx_free = !st.sprite_has_record;
        }
        Ev::Palette => st.palette_seen = true,
        Ev::Ignorable => {}
        Ev::NextFrame => {
            st.frame += 1;
            st.next_cel_layer = 0;
        }
        Ev::Ud(_) => match st.tag_ctx.as_mut() {
            Some((used, _)) => *used += 1,
            None => {
                st.ctx_free = false;
                if st.ctx_is_sprite {
                    st.sprite_has_record = true;
                }
            }
        },
    }
}

fn init() -> St {
    // after the prelude the context is the last prelude layer (record-free)
    St { frame: 0, next_cel_layer: 0, nlayers: PRELUDE_LAYERS, tags_seen: false, palette_seen: false, ctx_free: true, tag_ctx: None, sprite_has_record: false, ctx_is_sprite: false }
}

pub fn build(h: &[Ev]) -> File {
    build_ord(h, 0)
}

/// layer of the k-th cel event of a frame: 0 = ascending (0,1,2,..), 1 = descending within the prelude
/// layers (5,4,..,0), 2 = pairwise swapped (1,0,3,2,5,4); beyond the sixth cel always ascending
fn cel_layer(order: u8, k: u16) -> u16 {
    if k as usize >= PRELUDE_LAYERS {
        return k;
    }
    match order {
        1 => PRELUDE_LAYERS as u16 - 1 - k,
        2 => k ^ 1,
        _ => k,
    }
}

/// true if the history has a frame with two or more cel events (only then the order matters)
fn order_matters(h: &[Ev]) -> bool {
    let mut n = 0;
    for e in h {
        match e {
            Ev::NextFrame => n = 0,
            Ev::Cel => {
                n += 1;
                if n >= 2 {
                    return true;
                }
            }
            _ => {}
        }
    }
    false
}

/// true if the history has two or more slices (or two or more added layers) and a user-data record
fn names_matter(h: &[Ev]) -> bool {
    let ns = h.iter().filter(|e| matches!(e, Ev::Slice)).count();
    let nl = h.iter().filter(|e| matches!(e, Ev::Layer)).count();
    (ns >= 2 || nl >= 2) && h.iter().any(|e| matches!(e, Ev::Ud(_)))
}

pub fn build_ord(h: &[Ev], order: u8) -> File {
    build_named(h, order, false)
}

/// `same_names`: every slice is called "s" and every layer added by the history "l" (names need not be unique)
pub fn build_named(h: &[Ev], order: u8, same_names: bool) -> File {
    let fmt = Fmt::Rgba;
    let mut f = gen::file(2, 2, &fmt, &[10]);
    for i in 0..PRELUDE_LAYERS {
        f.frames[0].push(Body::Layer(Layer::image(&format!("p{}", i))));
    }
    let mut nrec = 0u8;
    let mut nign = 0usize;
    let mut next_cel = 0u16;
    let mut nl = PRELUDE_LAYERS;
    let mut nsl = 0;
    let mut nframe = 0usize;
    let mut frame0_layers: Vec<u16> = Vec::new();
    for e in h {
        let fr = f.frames.last_mut().unwrap();
        match e {
            Ev::Layer => {
                fr.push(Body::Layer(Layer::image(&if same_names { "l".to_string() } else { format!("l{}", nl) })));
                nl += 1;
            }
            Ev::Cel => {
                // in later frames the cel is a *linked* cel whenever frame 0 holds a cel on that layer
                let layer = cel_layer(order, next_cel);
                if nframe > 0 && frame0_layers.contains(&layer) {
                    fr.push(link_cel(layer, 0, 0, 255, 0));
                } else {
                    fr.push(raw_cel(layer, 0, 0, 255, 1, 1, vec![1, 2, 3, 4]));
                }
                if nframe == 0 {
                    frame0_layers.push(layer);
                }
                next_cel += 1;
            }
            Ev::Slice => {
                fr.push(slice(&if same_names { "s".to_string() } else { format!("s{}", nsl) }, 0, vec![key(0, 0, 0, 1, 1)]));
                nsl += 1;
            }
            Ev::Tags => {
                fr.push(tags(vec![Tag::new("t0", 0, 0, 0), Tag::new("t1", 0, 0, 1)]));
            }
            Ev::Legacy04 => {
                fr.push(Body::OldPalette04(old_palette(vec![(0, vec![[0, 0, 0], [255, 255, 255]])])));
            }
            Ev::Legacy11 => {
                fr.push(Body::OldPalette11(old_palette(vec![(0, vec![[0, 0, 0], [63, 63, 63]])])));
            }
            Ev::Palette => {
                fr.push(new_palette(0, pal_entries(3, 1)));
            }
            Ev::Ignorable => {
                fr.push(ignorable(1 + nign % 4).unwrap_or(Body::Path));
                nign += 1;
            }
            Ev::NextFrame => {
                f.frames.push(Frame::new(10));
                next_cel = 0;
                nframe += 1;
            }
            Ev::Ud(shape) => {
                let sh = if *shape == 4 { nrec % 4 } else { *shape };
                let text = format!("u{}", nrec);
                let col = [nrec, 100 + nrec, 7, 255 - nrec];
                fr.push(Body::UserData(match sh {
                    0 => UserData::none(),
                    1 => UserData::text(&text),
                    2 => UserData::color(col),
                    _ => UserData::both(&text, col),
                }));
                nrec += 1;
            }
        }
    }
    f
}

fn explore(ctx: &Ctx, fam: &str, alphabet: &[Ev], depth: usize, prefix: Vec<Ev>, st: St, want: &Want, count: &std::sync::atomic::AtomicU64, trans: &std::sync::atomic::AtomicU64) {
    // evaluate this history (state)
    let case = || format!("{:?}", prefix);
    if ctx.wants(fam, &case) {
        let f = build(&prefix);
        conform(ctx, fam, &case, &f, want);
        count.fetch_add(1, std::sync::atomic::Ordering::Relaxed);
        // the same history with the cels of a frame stored in descending / pairwise swapped layer order
        // the same history with all slices (and all added layers) sharing one name
        if names_matter(&prefix) {
            let case3 = || format!("{:?} same-names", prefix);
            if ctx.wants(fam, &case3) {
                conform(ctx, fam, &case3, &build_named(&prefix, 0, true), want);
                count.fetch_add(1, std::sync::atomic::Ordering::Relaxed);
            }
        }
        if order_matters(&prefix) {
            for order in [1u8, 2] {
                let case2 = || format!("{:?} cel-order={}", prefix, order);
                if ctx.wants(fam, &case2) {
                    conform(ctx, fam, &case2, &build_ord(&prefix, order), want);
                    count.fetch_add(1, std::sync::atomic::Ordering::Relaxed);
                }
            }
        }
    }
    if prefix.len() == depth {
        return;
    }
    for e in alphabet {
        if enabled(&st, *e) {
            let mut s2 = st.clone();
            step(&mut s2, *e);
            let mut p2 = prefix.clone();
            p2.push(*e);
            trans.fetch_add(1, std::sync::atomic::Ordering::Relaxed);
            explore(ctx, fam, alphabet, depth, p2, s2, want, count, trans);
        }
    }
}

pub fn run(ctx: &Ctx) -> i32 {
    let thorough = ctx.tier == Tier::Thorough;
    let base = [Ev::Layer, Ev::Cel, Ev::Slice, Ev::Tags, Ev::Legacy04, Ev::Legacy11, Ev::Palette, Ev::Ignorable, Ev::NextFrame];
    let mut a10: Vec<Ev> = base.to_vec();
    a10.push(Ev::Ud(4));
    let mut a13: Vec<Ev> = base.to_vec();
    a13.extend([Ev::Ud(0), Ev::Ud(1), Ev::Ud(2), Ev::Ud(3)]);
    let plans: Vec<(&str, Vec<Ev>, usize)> = if thorough { vec![("histories-13sym-depth7", a13.clone(), 7), ("histories-10sym-depth8", a10.clone(), 8)] } else { vec![("histories-10sym-depth7", a10.clone(), 7), ("histories-13sym-depth5", a13.clone(), 5)] };
    let mut want = Want::structure_only();
    want.pal_probes = vec![0, 1, 2, 3];
    want.name_probes = vec!["t0".into(), "p0".into(), "".into()];
    want.id_probes = vec![0, 1, 2];
    for (fam, alphabet, depth) in plans {
        if !ctx.wants_family(fam) {
            continue;
        }
        let count = std::sync::atomic::AtomicU64::new(0);
        let trans = std::sync::atomic::AtomicU64::new(0);
        // parallelise over all enabled prefixes of length 2
        let mut seeds: Vec<(Vec<Ev>, St)> = Vec::new();
        let st0 = init();
        {
            // depth-0 and depth-1 histories evaluated here
            let case0 = || "[]".to_string();
            if ctx.wants(fam, &case0) {
                conform(ctx, fam, &case0, &build(&[]), &want);
                count.fetch_add(1, std::sync::atomic::Ordering::Relaxed);
            }
            for e1 in &alphabet {
                if !enabled(&st0, *e1) {
                    continue;
                }
                let mut s1 = st0.clone();
                step(&mut s1, *e1);
                trans.fetch_add(1, std::sync::atomic::Ordering::Relaxed);
                let p1 = vec![*e1];
                let case1 = || format!("{:?}", p1);
                if ctx.wants(fam, &case1) {
                    conform(ctx, fam, &case1, &build(&p1), &want);
                    count.fetch_add(1, std::sync::atomic::Ordering::Relaxed);
                }
                for e2 in &alphabet {
                    if enabled(&s1, *e2) {
                        let mut s2 = s1.clone();
                        step(&mut s2, *e2);
                        trans.fetch_add(1, std::sync::atomic::Ordering::Relaxed);
                        seeds.push((vec![*e1, *e2], s2));
                    }
                }
            }
        }
        seeds.par_iter().for_each(|(p, s)| explore(ctx, fam, &alphabet, depth, p.clone(), s.clone(), &want, &count, &trans));
        let n = count.load(std::sync::atomic::Ordering::Relaxed);
        ctx.family(fam, n, &format!("every enabled event history of length <= {} over {} symbols (layer, cel, slice, tags(2), legacy04, legacy11, palette, ignorable, next-frame, user data{}), after a prelude of {} record-free layers; histories with two or more cels in a frame are also encoded with those cels on descending and on pairwise swapped layers, histories with a record and two or more slices (or added layers) also with all slices named alike and all added layers named alike; histories are not merged; {} model transitions", depth, alphabet.len(), if alphabet.len() == 13 { " x 4 payload shapes" } else { " with rotating payload shape" }, PRELUDE_LAYERS, trans.load(std::sync::atomic::Ordering::Relaxed)), true);
        ctx.set_extra(&format!("model_transitions_{}", fam), json!(trans.load(std::sync::atomic::Ordering::Relaxed)));
    }
    if ctx.wants_family("payloads") {
        let texts = names();
        let cols: [[u8; 4]; 5] = [[0, 0, 0, 0], [255, 255, 255, 255], [1, 2, 3, 4], [0, 0, 0, 255], [255, 0, 128, 1]];
        let mut cases = Vec::new();
        for ent in 0..5usize {
            for flags in 0..8u32 {
                for (ti, _) in texts.iter().enumerate() {
                    for ci in 0..cols.len() {
                        if (flags & 1 == 0 && ti > 0) || (flags & 2 == 0 && ci > 0) {
                            continue;
                        }
                        cases.push((ent, flags, ti, ci));
                    }
                }
            }
        }
        ctx.family("payloads", cases.len() as u64, "one record on each entity kind (layer, cel, slice, sprite, second tag) x flag word 0..7 (bit 2 = properties map, carried as opaque extra bytes) x text over NAMES x colour over 5 values", true);
        let mut w = Want::structure_only();
        w.pal_probes = vec![0];
        w.name_probes = vec!["".into()];
        w.id_probes = vec![0];
        cases.par_iter().for_each(|(ent, flags, ti, ci)| {
            let case = || format!("entity={} flags={} text#{} colour#{}", ent, flags, ti, ci);
            if !ctx.wants("payloads", &case) {
                return;
            }
            let fmt = Fmt::Rgba;
            let mut f = gen::file(2, 2, &fmt, &[10]);
            let ud = Body::UserData(UserData { flags: *flags, text: Str::new(&texts[*ti]), color: cols[*ci], extra: if flags & 4 != 0 { vec![4, 0, 0, 0, 0, 0, 0, 0] } else { vec![] } });
            f.frames[0].push(Body::Layer(Layer::image("l")));
            if *ent == 0 {
                f.frames[0].push(ud.clone());
            }
            f.frames[0].push(raw_cel(0, 0, 0, 255, 1, 1, vec![1, 2, 3, 4]));
            if *ent == 1 {
                f.frames[0].push(ud.clone());
            }
            f.frames[0].push(slice("s", 0, vec![key(0, 0, 0, 1, 1)]));
            if *ent == 2 {
                f.frames[0].push(ud.clone());
            }
            f.frames[0].push(Body::OldPalette04(old_palette(vec![(0, vec![[0, 0, 0]])])));
            if *ent == 3 {
                f.frames[0].push(ud.clone());
            }
            f.frames[0].push(tags(vec![Tag::new("a", 0, 0, 0), Tag::new("b", 0, 0, 0)]));
            if *ent == 4 {
                f.frames[0].push(Body::UserData(UserData::text("first")));
                f.frames[0].push(ud.clone());
            }
            conform(ctx, "payloads", &case, &f, &w);
        });
    }
    // the record after a cel of every kind: raw, compressed, linked, tilemap
    if ctx.wants_family("cel-kinds") {
        let kinds = ["raw", "zlib", "linked", "tilemap"];
        let cases: Vec<(usize, usize, u8)> = (0..kinds.len()).flat_map(|a| (0..kinds.len()).flat_map(move |b| (0..4u8).map(move |sh| (a, b, sh)))).collect();
        ctx.family("cel-kinds", cases.len() as u64, "two cels of every pair of kinds {raw, compressed, linked, tilemap} on two layers of a second frame, each followed by a user-data record of each of 4 payload shapes; every cel must report exactly its own record", true);
        cases.par_iter().for_each(|(a, b, sh)| {
            let case = || format!("kinds=({},{}) payload={}", kinds[*a], kinds[*b], sh);
            if !ctx.wants("cel-kinds", &case) {
                return;
            }
            let fmt = Fmt::Rgba;
            let mut f = gen::file(2, 2, &fmt, &[10, 20]);
            f.frames[0].push(Body::Tileset(tileset(0, 2, 1, 1, tile_pixels(&fmt, 2, 1, 1, 2, (0, 0)), "t")));
            for (li, k) in [*a, *b].iter().enumerate() {
                f.frames[0].push(Body::Layer(if *k == 3 { Layer::tilemap(&format!("l{}", li), 0) } else { Layer::image(&format!("l{}", li)) }));
            }
            // frame 0: the link targets (a cel of the layer's own kind)
            for (li, k) in [*a, *b].iter().enumerate() {
                f.frames[0].push(if *k == 3 { tm_cel(li as u16, 0, 0, 255, 1, 1, vec![1]) } else { raw_cel(li as u16, 0, 0, 255, 1, 1, vec![1, 2, 3, 4]) });
            }
            let mut nrec = 0u8;
            for (li, k) in [*a, *b].iter().enumerate() {
                let cel = match *k {
                    0 => raw_cel(li as u16, 1, 0, 255, 1, 1, vec![5, 6, 7, 8]),
                    1 => zcel(li as u16, 1, 0, 255, 1, 1, vec![5, 6, 7, 8], 6),
                    2 => link_cel(li as u16, 0, 0, 255, 0),
                    _ => tm_cel(li as u16, 1, 1, 255, 1, 1, vec![1]),
                };
                f.frames[1].push(cel);
                let text = format!("rec{}", nrec);
                let col = [nrec + 1, 9, 8, 7];
                f.frames[1].push(Body::UserData(match sh {
                    0 => UserData::none(),
                    1 => UserData::text(&text),
                    2 => UserData::color(col),
                    _ => UserData::both(&text, col),
                }));
                nrec += 1;
            }
            conform(ctx, "cel-kinds", &case, &f, &want);
        });
    }
    ctx.sample(json!({"history": "[Tags, Ignorable, Ud(4), Palette, Ud(4), Ud(4)]", "meaning": "tags(2) chunk, an ignorable chunk, a record (-> tag 0), a new palette chunk, a record (-> tag 1); the 3rd record is disabled in the model (more records than tags) so this history has length 5 at most"}));
    ctx.sample(json!({"history": "[Cel, Ud(4), NextFrame, Cel, Legacy04, Ud(4)]", "meaning": "cel (0,0) gets record u0; in frame 1 a cel, then a legacy palette chunk; record u1 goes to the sprite, not to cel (1,0)"}));
    ctx.note("the 'randomly beyond' clause of the quantifier is sampling and is not claimed");
    ctx.finish()
}
