//! Machinery self-tests (never a verdict about the library): the base sprites are inside
//! the reference model, their size fields add up, and the reference blend functions
//! reproduce the GUI-rendered corpus images.
use crate::common::*;
use mc_core::explore::Ctx;
use mc_core::obs::Want;
use mc_core::sem::Fmt;
use mc_core::{ase, gen, sem};

pub fn run(ctx: &Ctx) -> i32 {
    let mut bad = 0;
    let mut files = gen::bases();
    files.push(("d1-rgba", gen::d1(&Fmt::Rgba)));
    files.push(("d1-gray", gen::d1(&Fmt::Gray)));
    files.push(("d1-indexed", gen::d1(&Fmt::Indexed(4))));
    for (name, f) in &files {
        let bytes = f.encode();
        match ase::walk_sizes(&bytes) {
            Ok(end) if end == bytes.len() => {}
            other => {
                eprintln!("selftest: {} size walk: {:?} (len {})", name, other, bytes.len());
                bad += 1;
            }
        }
        if let Err(e) = sem::interpret(f) {
            eprintln!("selftest: {} not in reference model: {}", name, e);
            bad += 1;
            continue;
        }
        let mut w = Want::all();
        w.debug_fmt = true;
        let c = conform(ctx, "selftest", &|| name.to_string(), f, &w);
        eprintln!("selftest: {} ({} bytes) conform ok={}", name, bytes.len(), c.ok);
    }
    bad += corpus(ctx);
    let code = ctx.finish();
    if bad > 0 { 2 } else { code }
}

/// Corpus files: level-1 decode, byte-exact re-encode, reference-model prediction vs the
/// library, and reference-model frame images vs the GUI-rendered PNGs.
pub fn corpus(ctx: &Ctx) -> i32 {
    let mut bad = 0;
    let dir = std::path::Path::new("/repo/tests/data");
    let mut names: Vec<_> = std::fs::read_dir(dir).unwrap().filter_map(|e| e.ok()).map(|e| e.path()).filter(|p| p.extension().map_or(false, |x| x == "aseprite")).collect();
    names.sort();
    let (mut inside, mut png_ok, mut png_px) = (0, 0, 0u64);
    for p in &names {
        let name = p.file_stem().unwrap().to_string_lossy().to_string();
        let bytes = std::fs::read(p).unwrap();
        let f = match mc_core::ase_parse::parse(&bytes) {
            Ok(f) => f,
            Err(e) => {
                eprintln!("selftest: corpus {} not decodable by the level-1 decoder: {}", name, e);
                bad += 1;
                continue;
            }
        };
        let re = f.encode();
        if re != bytes {
            let at = re.iter().zip(bytes.iter()).position(|(a, b)| a != b);
            eprintln!("selftest: corpus {} re-encode differs (len {} vs {}, first diff {:?})", name, re.len(), bytes.len(), at);
            bad += 1;
        }
        let semv = match sem::interpret(&f) {
            Ok(s) => s,
            Err(e) => {
                eprintln!("selftest: corpus {} outside the reference model: {}", name, e);
                continue;
            }
        };
        inside += 1;
        let mut w = Want::all();
        sem::default_probes(&semv, &mut w);
        let c = conform_bytes(ctx, "corpus", &|| name.clone(), &bytes, &semv, &w);
        if !c.ok {
            eprintln!("selftest: corpus {} does not conform", name);
        }
        // GUI-rendered reference PNGs
        for fi in 0..semv.durations.len() {
            let cands = [format!("{}.png", name), format!("{}_{:02}.png", name, fi + 1)];
            for (k, cnd) in cands.iter().enumerate() {
                if k == 0 && fi != 0 {
                    continue;
                }
                let pp = dir.join(cnd);
                if !pp.is_file() {
                    continue;
                }
                let Ok(im) = image::open(&pp) else { continue };
                let im = im.to_rgba8();
                if im.dimensions() != (semv.w as u32, semv.h as u32) {
                    continue;
                }
                let (px, _ub) = semv.frame_image(fi as u16);
                let mut diffs = 0;
                for (i, e) in im.pixels().enumerate() {
                    let a = px[i];
                    if !(a == e.0 || (a[3] == 0 && e.0[3] == 0)) {
                        if diffs == 0 {
                            eprintln!("selftest: reference model vs {}: pixel {} expected {:?} model {:?}", cnd, i, e.0, a);
                        }
                        diffs += 1;
                    }
                }
                png_px += px.len() as u64;
                if diffs == 0 {
                    png_ok += 1;
                } else {
                    eprintln!("selftest: reference model disagrees with GUI-rendered {} in {} pixels", cnd, diffs);
                    bad += 1;
                }
            }
        }
    }
    eprintln!("selftest: corpus files {} ; inside reference model {} ; GUI reference images matched {} ({} pixels)", names.len(), inside, png_ok, png_px);
    bad
}
