//! C08 — tilemap and tileset images agree with tile lookups.
use crate::common::*;
use mc_core::ase::*;
use mc_core::blend::mul_un8;
use mc_core::explore::*;
use mc_core::gen::{self, *};
use mc_core::obs::{Obs, Want};
use mc_core::sem::Fmt;
use rayon::prelude::*;
use serde_json::json;

/// The statement, literally, on the library's own outputs: image pixel (px,py) ==
/// pixel (px mod tw, py mod th) of tile `tile(px div tw, py div th)` with alpha scaled.
fn direct(o: &Obs, op: u8) -> Option<String> {
    for tm in o.tilemaps.iter().flatten() {
        let ts = o.tilesets.iter().find(|t| t.id == tm.tileset_id)?;
        let (tw, th) = tm.tile_size;
        let img = tm.image.as_ref()?;
        let nx = tile_axis_len(tm.width);
        for py in 0..img.h {
            for px in 0..img.w {
                let (tx, ty) = (px / tw, py / th);
                if tx >= tm.width + 2 || ty >= tm.height + 2 || tx >= 40 || ty >= 40 {
                    continue;
                }
                let id = tm.tiles[(ty as usize) * nx + tx as usize];
                let Some(timg) = ts.tile_images.get(id as usize) else { return Some(format!("tile id {} has no tile image", id)) };
                let Some(sp) = timg.pixel(px % tw, py % th) else { continue };
                let a = mul_un8(sp[3], op);
                let want = if a == 0 { [0, 0, 0, 0] } else { [sp[0], sp[1], sp[2], a] };
                let got = img.pixel(px, py)?;
                if got != want {
                    return Some(format!("tilemap({},{}) image pixel ({},{}) = {:?}, but tile({},{}) = {} whose pixel ({},{}) scaled by {} is {:?}", tm.layer, tm.frame, px, py, got, tx, ty, id, px % tw, py % th, op, want));
                }
            }
        }
    }
    // tileset image = tile images stacked vertically
    for ts in &o.tilesets {
        let Some(img) = &ts.image else { continue };
        for (i, t) in ts.tile_images.iter().enumerate() {
            if (t.w, t.h) != (ts.tile_size.0 as u32, ts.tile_size.1 as u32) {
                return Some(format!("tile image {} is {}x{} for tile size {:?}", i, t.w, t.h, ts.tile_size));
            }
            for y in 0..t.h {
                for x in 0..t.w {
                    if let (Some(a), Some(b)) = (t.pixel(x, y), img.pixel(x, i as u32 * t.h + y)) {
                        if a != b {
                            return Some(format!("tileset {} image row {} differs from tile image {}", ts.id, i as u32 * t.h + y, i));
                        }
                    }
                }
            }
        }
    }
    None
}

fn tile_axis_len(logical: u32) -> usize {
    mc_core::obs::tile_probe_axis(logical, true).len()
}

pub fn run(ctx: &Ctx) -> i32 {
    let thorough = ctx.tier == Tier::Thorough;
    let tsizes: Vec<u16> = if thorough { vec![1, 2, 3, 16] } else { vec![1, 2, 3] };
    let counts: Vec<u32> = if thorough { vec![1, 2, 3, 5] } else { vec![1, 3] };
    let ops: [(u8, u8); 3] = [(255, 255), (128, 200), (0, 255)];
    let fmts = [Fmt::Rgba, Fmt::Gray, Fmt::Indexed(0)];
    // one "row" of the product per parallel task: (fmt, tw, th, count, cw_i, ch_i)
    let mut rows = Vec::new();
    for fi in 0..3usize {
        for tw in &tsizes {
            for th in &tsizes {
                for n in &counts {
                    for cwi in 0..3usize {
                        for chi in 0..3usize {
                            rows.push((fi, *tw, *th, *n, cwi, chi));
                        }
                    }
                }
            }
        }
    }
    let per_row = 9 * 49 * 4 * 3;
    let fam = "product";
    ctx.family(fam, rows.len() as u64 * per_row, &format!("pixel format x3, tile size {:?}^2, tile count {:?}, canvas {{2tw, 2tw+1, 1}} x {{2th, 2th-1, 1}}, stored map {{1,2,3}}^2, tile offset {{-3..3}}^2 (pixel offset = tile offset x tile size), tile-word pattern {{ascending, max id, zero, flip/rotate bits set}}, opacity pair x3; lookups at every (x,y) in [0,Wt+2)x[0,Ht+2) and at 2^31-1, 2^31, 2^32-1", tsizes, counts), true);
    let want = Want::all();
    let run_product = ctx.wants_family(fam);
    rows.par_iter().for_each(|(fi, tw, th, n, cwi, chi)| {
        if !run_product {
            return;
        }
        let fmt = &fmts[*fi];
        let cw = [tw * 2, tw * 2 + 1, 1][*cwi];
        let ch = [th * 2, (th * 2 - 1).max(1), 1][*chi];
        // tile pixels (and, for indexed sprites, the palette) change with the stored map size, so that
        // consecutive sprites of a row have tilesets with equal id / count / tile size but different content
        let tpxs: Vec<Vec<u8>> = (0..9u32).map(|k| tile_pixels(fmt, *n, *tw, *th, 3 + k, (1, 9))).collect();
        for mw in 1..=3u16 {
            for mh in 1..=3u16 {
                let tpx = &tpxs[((mw - 1) * 3 + (mh - 1)) as usize];
                for ox in -3..=3i16 {
                    for oy in -3..=3i16 {
                        for pat in 0..4u32 {
                            for (oi, (lo, co)) in ops.iter().enumerate() {
                                let case = || format!("fmt{} tile={}x{} n={} canvas={}x{} map={}x{} off=({},{}) pat={} op={}", fi, tw, th, n, cw, ch, mw, mh, ox, oy, pat, oi);
                                if !ctx.wants(fam, &case) {
                                    continue;
                                }
                                let mut f = gen::file(cw, ch, fmt, &[10]);
                                if *fi == 2 {
                                    f.frames[0].push(new_palette(0, pal_entries(10, 5 + mw as u32)));
                                }
                                f.frames[0].push(Body::Tileset(tileset(6, *n, *tw, *th, tpx.clone(), "ts")));
                                let mut l = Layer::tilemap("map", 6);
                                l.opacity = *lo;
                                f.frames[0].push(Body::Layer(l));
                                let tiles: Vec<u32> = (0..mw as u32 * mh as u32)
                                    .map(|k| match pat {
                                        0 => (k + 1) % n,
                                        1 => n - 1,
                                        2 => 0,
                                        _ => ((k + 1) % n) | [0x8000_0000u32, 0x4000_0000, 0x2000_0000, 0xE000_0000][k as usize % 4],
                                    })
                                    .collect();
                                f.frames[0].push(tm_cel(0, ox * *tw as i16, oy * *th as i16, *co, mw, mh, tiles));
                                let c = conform(ctx, fam, &case, &f, &want);
                                if let Some(o) = &c.obs {
                                    if let Some(msg) = direct(o, mul_un8(*lo, *co)) {
                                        ctx.violation(Violation { family: fam.into(), case: case(), sig: format!("direct:{}", sig_of(&msg)), detail: msg, bytes: Some(f.encode()), extra: json!({}) });
                                    }
                                }
                            }
                        }
                    }
                }
            }
        }
    });
    ctx.sample(json!({"family": fam, "case": "fmt0 tile=2x3 n=3 canvas=5x5 map=2x3 off=(-1,2) pat=3 op=1", "meaning": "RGBA, 3 tiles of 2x3, 5x5 canvas (logical 3x2 tiles), stored 2x3 map at tile offset (-1,2), tile words carry flip/rotate bits, opacities (128,200)"}));

    // size in tiles = ceil(canvas / tile) over the whole 16-bit range of either operand (no images)
    if ctx.wants_family("logical-size") {
        let mut dims: Vec<u16> = (1..=70).collect();
        dims.extend([255u16, 256, 257, 4095, 4096, 32767, 32768, 32769]);
        dims.extend(65500..=65535u16);
        let tiles: Vec<u16> = vec![1, 2, 3, 5, 7, 15, 16, 17, 255, 256, 257, 32767, 32768, 65534, 65535];
        let cases: Vec<(u16, u16, bool)> = dims.iter().flat_map(|d| tiles.iter().flat_map(move |t| [(*d, *t, false), (*d, *t, true)])).collect();
        ctx.family("logical-size", cases.len() as u64, "canvas extent in {1..70, 255..257, 4095, 4096, 32767..32769, 65500..65535} x tile extent in {1,2,3,5,7,15,16,17,255,256,257,32767,32768,65534,65535} on the x axis and on the y axis: width()/height(), tile offsets and lookups compared with the model (structure only, no images)", true);
        let mut w = Want::structure_only();
        w.tilemaps = true;
        cases.par_iter().for_each(|(d, t, vertical)| {
            let case = || format!("canvas={} tile={} axis={}", d, t, if *vertical { "y" } else { "x" });
            if !ctx.wants("logical-size", &case) {
                return;
            }
            let fmt = Fmt::Gray;
            let (cw, chh, tw, th) = if *vertical { (2u16, *d, 2u16, *t) } else { (*d, 2, *t, 2) };
            let mut f = gen::file(cw, chh, &fmt, &[10]);
            let n = tw as usize * th as usize * 2;
            let mut px = vec![0u8; n * 2];
            for i in 0..n {
                px[n * 2 / 2 + i] = if i % 2 == 0 { (i / 2 % 251) as u8 } else { 255 };
            }
            f.frames[0].push(Body::Tileset(tileset(0, 2, tw, th, px, "t")));
            f.frames[0].push(Body::Layer(Layer::tilemap("map", 0)));
            f.frames[0].push(tm_cel(0, 0, 0, 255, 2, 2, vec![1, 0, 1, 1]));
            conform(ctx, "logical-size", &case, &f, &w);
        });
    }

    // one tileset shared by several tilemap cels (frames and layers) with different effective opacities
    if ctx.wants_family("shared-tileset") {
        let ops: [(u8, u8); 4] = [(255, 255), (255, 100), (128, 200), (0, 255)];
        let mut cases = Vec::new();
        for fi in 0..3usize {
            for a in 0..4usize {
                for b in 0..4usize {
                    for two_layers in [false, true] {
                        cases.push((fi, a, b, two_layers));
                    }
                }
            }
        }
        ctx.family("shared-tileset", cases.len() as u64, "one tileset used by two tilemap cels (two frames of one layer, or two layers) for every pair of (layer, cel) opacity pairs out of 4, 3 pixel formats; both rendered on the same loaded object", true);
        cases.par_iter().for_each(|(fi, a, b, two_layers)| {
            let case = || format!("fmt{} ops={:?}/{:?} two_layers={}", fi, ops[*a], ops[*b], two_layers);
            if !ctx.wants("shared-tileset", &case) {
                return;
            }
            let fmt = &fmts[*fi];
            let mut f = gen::file(4, 2, fmt, &[10, 20]);
            if *fi == 2 {
                f.frames[0].push(new_palette(0, pal_entries(10, 5)));
            }
            f.frames[0].push(Body::Tileset(tileset(1, 3, 2, 1, tile_pixels(fmt, 3, 2, 1, 4, (1, 9)), "ts")));
            let mut l0 = Layer::tilemap("m0", 1);
            l0.opacity = ops[*a].0;
            f.frames[0].push(Body::Layer(l0));
            if *two_layers {
                let mut l1 = Layer::tilemap("m1", 1);
                l1.opacity = ops[*b].0;
                f.frames[0].push(Body::Layer(l1));
                f.frames[0].push(tm_cel(0, 0, 0, ops[*a].1, 2, 2, vec![1, 2, 2, 1]));
                f.frames[0].push(tm_cel(1, 0, 0, ops[*b].1, 2, 1, vec![2, 1]));
            } else {
                f.frames[0].push(tm_cel(0, 0, 0, ops[*a].1, 2, 2, vec![1, 2, 2, 1]));
                f.frames[1].push(tm_cel(0, 2, 0, ops[*b].1, 1, 2, vec![2, 1]));
            }
            conform(ctx, "shared-tileset", &case, &f, &want);
        });
    }

    // many tiles: ids beyond 255
    if ctx.wants_family("many-tiles") {
        let cases: Vec<(usize, u32)> = (0..3usize).flat_map(|fi| [256u32, 300, 1000].into_iter().map(move |n| (fi, n))).collect();
        ctx.family("many-tiles", cases.len() as u64, "tilesets of 256 / 300 / 1000 tiles (2x1 pixels) and maps that use the ids around 255/256 and the last id; 3 pixel formats", true);
        cases.par_iter().for_each(|(fi, n)| {
            let case = || format!("fmt{} tiles={}", fi, n);
            if !ctx.wants("many-tiles", &case) {
                return;
            }
            let fmt = &fmts[*fi];
            let mut f = gen::file(8, 3, fmt, &[10]);
            if *fi == 2 {
                f.frames[0].push(new_palette(0, pal_entries(10, 5)));
            }
            f.frames[0].push(Body::Tileset(tileset(3, *n, 2, 1, tile_pixels(fmt, *n, 2, 1, 9, (1, 9)), "many")));
            f.frames[0].push(Body::Layer(Layer::tilemap("map", 3)));
            let ids = vec![254, 255, 256 % n, 257 % n, n - 1, 1, 0, n - 2, 255, 128, n / 2, 256 % n];
            f.frames[0].push(tm_cel(0, 0, 0, 255, 4, 3, ids));
            let mut w = want.clone();
            w.max_tile_images = 1024;
            conform(ctx, "many-tiles", &case, &f, &w);
        });
    }


    // tile words decoded with the bitmasks the cel's own header declares
    if ctx.wants_family("bitmasks") {
        // (id mask, x-flip, y-flip, rotate)
        let layouts: [(u32, u32, u32, u32); 6] = [
            (0x1fff_ffff, 0x8000_0000, 0x4000_0000, 0x2000_0000),
            (0x1fff_ffff, 0x2000_0000, 0x4000_0000, 0x8000_0000),
            (0x0000_0003, 0x0000_0004, 0x0000_0008, 0x0000_0010),
            (0x0000_00ff, 0x0000_0100, 0x0000_0200, 0x0000_0400),
            (0x0000_ffff, 0x0001_0000, 0x0002_0000, 0x8000_0000),
            (0xffff_ffff, 0, 0, 0),
        ];
        let mut cases: Vec<(usize, usize, u32, Vec<u32>)> = Vec::new();
        for fi in 0..3usize {
            for (li, (mid, mx, my, mr)) in layouts.iter().enumerate() {
                for n in [2u32, 4] {
                    // words: every id below n (within the id mask) combined with every subset of the flag bits,
                    // and with one bit that no mask covers
                    let mut words: Vec<u32> = Vec::new();
                    let junk = !(mid | mx | my | mr);
                    let junk_bit = if junk != 0 { 1u32 << junk.trailing_zeros() } else { 0 };
                    let junk_hi = if junk != 0 { 1u32 << (31 - junk.leading_zeros()) } else { 0 };
                    for id in 0..n.min(mid.saturating_add(1).max(1)) {
                        if id & mid != id {
                            continue;
                        }
                        for sub in 0..8u32 {
                            let fl = (if sub & 1 != 0 { *mx } else { 0 }) | (if sub & 2 != 0 { *my } else { 0 }) | (if sub & 4 != 0 { *mr } else { 0 });
                            words.push(id | fl);
                            if junk_bit != 0 && sub % 3 == 0 {
                                words.push(id | fl | junk_bit);
                                words.push(id | fl | junk_hi);
                            }
                        }
                    }
                    words.sort();
                    words.dedup();
                    for a in &words {
                        cases.push((fi, li, n, vec![*a]));
                        for b in &words {
                            cases.push((fi, li, n, vec![*a, *b]));
                        }
                    }
                }
            }
        }
        ctx.family("bitmasks", cases.len() as u64, "tilemap cels whose header declares one of 6 bitmask layouts (the standard one, the standard one with flip and rotate bits exchanged, 2-bit / 8-bit / 16-bit tile ids with the flag bits directly above, 32-bit ids without flag bits) x tilesets of 2 / 4 tiles x every 1x1 and 2x1 map over the words {id | any subset of that layout's flag bits | optionally one bit no mask covers}; 3 pixel formats; the tile id is the word masked with the cel's own id mask", true);
        cases.par_iter().for_each(|(fi, li, n, words)| {
            let case = || format!("fmt{} layout{} tiles={} words={:x?}", fi, li, n, words);
            if !ctx.wants("bitmasks", &case) {
                return;
            }
            let fmt = &fmts[*fi];
            let mut f = gen::file(4, 2, fmt, &[10]);
            if *fi == 2 {
                f.frames[0].push(new_palette(0, pal_entries(10, 5)));
            }
            f.frames[0].push(Body::Tileset(tileset(1, *n, 2, 2, tile_pixels(fmt, *n, 2, 2, 4, (1, 9)), "ts")));
            f.frames[0].push(Body::Layer(Layer::tilemap("m", 1)));
            let mut c = tm_cel(0, 0, 0, 255, words.len() as u16, 1, words.clone());
            if let Body::Cel(cc) = &mut c {
                if let CelBody::Tilemap { mask_id, mask_xflip, mask_yflip, mask_rot, .. } = &mut cc.body {
                    (*mask_id, *mask_xflip, *mask_yflip, *mask_rot) = layouts[*li];
                }
            }
            f.frames[0].push(c);
            let r = conform(ctx, "bitmasks", &case, &f, &want);
            if let Some(o) = &r.obs {
                if let Some(msg) = direct(o, 255) {
                    ctx.violation(Violation { family: "bitmasks".into(), case: case(), sig: format!("direct:{}", sig_of(&msg)), detail: msg, bytes: Some(f.encode()), extra: json!({}) });
                }
            }
        });
    }


    // tileset flag bits other than "tiles embedded" do not change lookups or images
    if ctx.wants_family("tileset-flags") {
        let extra_bits = [4u32, 8, 16, 0x100, 0x8000_0000];
        let mut cases: Vec<(usize, u32, i16, i16)> = Vec::new();
        for fi in 0..3usize {
            for sub in 0..(1u32 << extra_bits.len()) {
                let flags = 2 | extra_bits.iter().enumerate().filter(|(i, _)| sub >> i & 1 != 0).map(|(_, b)| *b).sum::<u32>();
                for ox in -1..=1i16 {
                    for oy in -1..=1i16 {
                        cases.push((fi, flags, ox, oy));
                    }
                }
            }
        }
        ctx.family("tileset-flags", cases.len() as u64, "tileset flags = embedded-tiles bit plus every subset of {4 (empty tile is id 0), 8, 16, 0x100, 0x80000000} x tile offset {-1,0,1}^2 x 3 pixel formats on a 3x3-tile canvas with a stored 2x1 map: lookups inside, outside and far outside the stored area, tilemap and tileset images compared with the model", true);
        cases.par_iter().for_each(|(fi, flags, ox, oy)| {
            let case = || format!("fmt{} flags={:#x} off=({},{})", fi, flags, ox, oy);
            if !ctx.wants("tileset-flags", &case) {
                return;
            }
            let fmt = &fmts[*fi];
            let mut f = gen::file(6, 6, fmt, &[10]);
            if *fi == 2 {
                f.frames[0].push(new_palette(0, pal_entries(10, 5)));
            }
            let mut ts = tileset(1, 3, 2, 2, tile_pixels(fmt, 3, 2, 2, 4, (1, 9)), "ts");
            ts.flags = *flags;
            f.frames[0].push(Body::Tileset(ts));
            f.frames[0].push(Body::Layer(Layer::tilemap("m", 1)));
            f.frames[0].push(tm_cel(0, ox * 2, oy * 2, 255, 2, 1, vec![2, 1]));
            let r = conform(ctx, "tileset-flags", &case, &f, &want);
            if let Some(o) = &r.obs {
                if let Some(msg) = direct(o, 255) {
                    ctx.violation(Violation { family: "tileset-flags".into(), case: case(), sig: format!("direct:{}", sig_of(&msg)), detail: msg, bytes: Some(f.encode()), extra: json!({}) });
                }
            }
        });
    }


    // the tilemap layer's other flag bits (background, locked, reference ...) do not change what a tile looks like
    if ctx.wants_family("layer-flags") {
        let words: [u16; 5] = [3, 1 | 8, 1 | 4 | 8, 1 | 0x40, 0xFFFF];
        // (format, flag word, transparent index, blend mode, opacity pair)
        let mut cases: Vec<(usize, usize, u8, u16, usize)> = Vec::new();
        for fi in 0..3usize {
            for w in 0..words.len() {
                for t in [0u8, 3] {
                    cases.push((fi, w, t, 0, 0));
                }
            }
            // the tilemap layer's blend mode and opacity: the tilemap image is the tiles with alpha scaled, whatever the mode
            for mode in [0u16, 1, 2, 12, 16, 18] {
                for oi in 0..4usize {
                    cases.push((fi, 0, 0, mode, oi));
                }
            }
        }
        let opairs: [(u8, u8); 4] = [(255, 255), (255, 128), (100, 255), (200, 128)];
        ctx.family("layer-flags", cases.len() as u64, "a tilemap layer whose flag word is visible+editable / visible+background / visible+locked+background / visible+reference / all bits, or whose blend mode is one of 6 with 4 opacity pairs, 3 pixel formats, indexed with transparent index 0 or 3; tiles contain every index incl. the transparent one (palette entries opaque and translucent): tilemap image, tile images and tileset image compared with the model and pixel by pixel with each other", true);
        cases.par_iter().for_each(|(fi, w, t, mode, oi)| {
            let case = || format!("fmt{} layer.flags={:#x} transparent={} mode={} opacities={:?}", fi, words[*w], t, mode, opairs[*oi]);
            if !ctx.wants("layer-flags", &case) {
                return;
            }
            let fmt = match fi {
                0 => Fmt::Rgba,
                1 => Fmt::Gray,
                _ => Fmt::Indexed(*t),
            };
            let mut f = gen::file(6, 4, &fmt, &[10]);
            if *fi == 2 {
                f.frames[0].push(new_palette(0, pal_entries(8, 3)));
            }
            f.frames[0].push(Body::Layer(Layer::image("below")));
            f.frames[0].push(Body::Tileset(tileset(1, 4, 2, 2, tile_pixels(&fmt, 4, 2, 2, 4, (0, 7)), "ts")));
            let mut l = Layer::tilemap("m", 1);
            l.flags = words[*w];
            l.blend = *mode;
            l.opacity = opairs[*oi].0;
            f.frames[0].push(Body::Layer(l));
            f.frames[0].push(raw_cel(0, 0, 0, 255, 6, 4, pixels(&fmt, 6, 4, 9, (0, 7))));
            f.frames[0].push(tm_cel(1, 0, 0, opairs[*oi].1, 3, 2, vec![1, 2, 3, 0, 3, 1]));
            let r = conform(ctx, "layer-flags", &case, &f, &want);
            if let Some(o) = &r.obs {
                if let Some(msg) = direct(o, mul_un8(opairs[*oi].0, opairs[*oi].1)) {
                    ctx.violation(Violation { family: "layer-flags".into(), case: case(), sig: format!("direct:{}", sig_of(&msg)), detail: msg, bytes: Some(f.encode()), extra: json!({}) });
                }
            }
        });
    }

    // non-tilemap cels / layers: tilemap() must be None
    if ctx.wants_family("none") {
        let cases = [0, 1, 2, 3];
        ctx.family("none", cases.len() as u64, "tilemap(l,f) is None for image layers, group layers, empty cells and linked cells on a tilemap layer", true);
        for k in cases {
            let case = || format!("none-{}", k);
            if !ctx.wants("none", &case) {
                continue;
            }
            let fmt = Fmt::Rgba;
            let mut f = gen::file(4, 4, &fmt, &[1, 2]);
            f.frames[0].push(Body::Tileset(tileset(0, 2, 2, 2, tile_pixels(&fmt, 2, 2, 2, 1, (0, 0)), "ts")));
            f.frames[0].push(Body::Layer(Layer::image("img")));
            f.frames[0].push(Body::Layer(Layer::group("grp")));
            f.frames[0].push(Body::Layer(Layer::tilemap("map", 0)));
            f.frames[0].push(raw_cel(0, 0, 0, 255, 2, 2, pixels(&fmt, 2, 2, 1, (0, 0))));
            if k >= 1 {
                f.frames[1].push(tm_cel(2, 0, 0, 255, 1, 1, vec![1]));
            }
            if k >= 2 {
                f.frames[0].push(link_cel(2, 0, 0, 255, 1));
            }
            if k == 3 {
                f.tail = vec![0; 3];
            }
            conform(ctx, "none", &case, &f, &want);
        }
    }

    // the i32 extreme: tile_x * tile_width beyond 2^31 (thorough; ~2.4e9 loop iterations)
    if thorough && ctx.wants_family("extreme") {
        ctx.family("extreme", 1, "a 40,000x1 map of 60,000x1-pixel tiles on a 1x1 canvas: tile_x*tile_width exceeds i32", true);
        let case = || "40000x1 map of 60000x1 tiles".to_string();
        if ctx.wants("extreme", &case) {
            let fmt = Fmt::Gray;
            let mut f = gen::file(1, 1, &fmt, &[10]);
            let mut px = vec![0u8; 2 * 60000 * 2];
            for i in 0..60000 {
                px[120000 + i * 2] = (i % 251) as u8;
                px[120000 + i * 2 + 1] = 255;
            }
            f.frames[0].push(Body::Tileset(tileset(0, 2, 60000, 1, px, "wide")));
            f.frames[0].push(Body::Layer(Layer::tilemap("map", 0)));
            f.frames[0].push(tm_cel(0, 0, 0, 255, 40000, 1, vec![1; 40000]));
            let mut w = Want::all();
            w.max_tile_images = 2;
            conform(ctx, "extreme", &case, &f, &w);
        }
    }
    ctx.finish()
}
