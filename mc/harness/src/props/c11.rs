//! C11 — palettes decode correctly; indexed files need a complete palette.
use crate::common::*;
use mc_core::ase::*;
use mc_core::explore::*;
use mc_core::gen::{self, *};
use mc_core::obs::Want;
use mc_core::sem::Fmt;
use rayon::prelude::*;
use serde_json::json;

/// the load must fail with an error value
pub fn expect_err(ctx: &Ctx, family: &str, case: &dyn Fn() -> String, bytes: &[u8], why: &str) {
    expect_err_class(ctx, family, case, bytes, why, 0)
}

/// `class` = a coverage class of the case (e.g. which entity of which base was altered);
/// the outcome digest is (class, error variant), so distinct_nontrivial counts classes.
pub fn expect_err_class(ctx: &Ctx, family: &str, case: &dyn Fn() -> String, bytes: &[u8], why: &str, class: u64) {
    if !ctx.wants(family, case) {
        return;
    }
    ctx.eval(1);
    match load(bytes) {
        Loaded::Err(e) => ctx.outcome(hash64(&("err", err_variant(&e), class))),
        Loaded::Ok(_) => {
            ctx.outcome(hash64(&"ok"));
            ctx.violation(Violation { family: family.into(), case: case(), sig: "loaded-but-must-fail".into(), detail: format!("load succeeded although {}", why), bytes: Some(bytes.to_vec()), extra: json!({}) });
        }
        Loaded::Panic(m) => {
            ctx.outcome(hash64(&("panic", &m)));
            ctx.violation(Violation { family: family.into(), case: case(), sig: format!("load-panic:{}", sig_of(&m)), detail: format!("panic instead of an error ({}): {}", why, m), bytes: Some(bytes.to_vec()), extra: json!({}) });
        }
    }
}

/// legacy packets that define exactly the index set `p` (sorted), colours derived from the index
fn sparse_packets(p: &[u32], six_bit: bool) -> Vec<(u8, Vec<[u8; 3]>)> {
    let mut out: Vec<(u8, Vec<[u8; 3]>)> = Vec::new();
    let mut prev_start = 0u32;
    let mut i = 0;
    while i < p.len() {
        let start = p[i];
        let mut j = i;
        while j + 1 < p.len() && p[j + 1] == p[j] + 1 {
            j += 1;
        }
        let cols = (start..=p[j]).map(|k| if six_bit { [(k * 5 % 64) as u8, (k * 3 % 64) as u8, (63 - k % 64) as u8] } else { [(k * 31) as u8, (k * 17 + 5) as u8, (255 - k) as u8] }).collect();
        out.push(((start - prev_start) as u8, cols));
        prev_start = start;
        i = j + 1;
    }
    out
}

pub fn run(ctx: &Ctx) -> i32 {
    let thorough = ctx.tier == Tier::Thorough;
    let mut want = Want::structure_only();
    want.tileset_images = true;
    want.cel_images = true;
    want.frame_images = true;

    // new-format palettes: (first, len) grid x entry flags x names
    if ctx.wants_family("new-format") {
        let firsts = [0u32, 1, 2, 254, 255, 256, 1000];
        let lens = [1usize, 2, 3, 256];
        let flags = b16();
        let nms = names();
        let mut cases = Vec::new();
        for first in firsts.iter().copied().chain([u32::MAX]) {
            for len in lens {
                let first = if first == u32::MAX { u32::MAX - len as u32 + 1 } else { first };
                for (fi, _) in flags.iter().enumerate() {
                    cases.push((first, len, fi, 1usize));
                }
                for (ni, _) in nms.iter().enumerate() {
                    cases.push((first, len, 1, ni));
                }
            }
        }
        ctx.family("new-format", cases.len() as u64, "new palette chunk: first in {0,1,2,254,255,256,1000,2^32-len} x len {1,2,3,256} x (entry flags over B16 | entry name over NAMES) on the middle entry; RGBA palette-only sprites and indexed sprites whose pixels use the range", true);
        cases.par_iter().for_each(|(first, len, fi, ni)| {
            let case = || format!("first={} len={} flags#{} name#{}", first, len, fi, ni);
            if !ctx.wants("new-format", &case) {
                return;
            }
            let fmt = if *first < 250 && *first as usize + *len <= 256 { Fmt::Indexed(*first as u8) } else { Fmt::Rgba };
            let mut f = gen::file(2, 2, &fmt, &[10]);
            let mut ents = pal_entries(*len, *first);
            let mid = len / 2;
            ents[mid].flags = flags[*fi];
            ents[mid].name = Str::new(&nms[*ni]);
            f.frames[0].push(new_palette(*first, ents));
            f.frames[0].push(Body::Layer(Layer::image("l")));
            if let Fmt::Indexed(_) = fmt {
                let data: Vec<u8> = (0..4).map(|i| (*first as usize + i % len) as u8).collect();
                f.frames[0].push(raw_cel(0, 0, 0, 255, 2, 2, data));
            }
            conform(ctx, "new-format", &case, &f, &want);
        });
        ctx.sample(json!({"family": "new-format", "case": "first=254 len=3 flags#1 name#6"}));
    }

    // legacy chunks: every packet list of <= 3 packets
    for (kind, fam) in [(4u16, "legacy04-packets"), (0x11, "legacy11-packets")] {
        if !ctx.wants_family(fam) {
            continue;
        }
        let skips = [0u8, 1, 2, 255];
        let cnts = [0u8, 1, 2, 255];
        let mut lists: Vec<Vec<(u8, u8)>> = vec![vec![]];
        let pk: Vec<(u8, u8)> = skips.iter().flat_map(|s| cnts.iter().map(move |c| (*s, *c))).collect();
        for a in &pk {
            lists.push(vec![*a]);
            for b in &pk {
                lists.push(vec![*a, *b]);
                for c in &pk {
                    lists.push(vec![*a, *b, *c]);
                }
            }
        }
        ctx.family(fam, lists.len() as u64, "every list of <= 3 packets with skip in {0,1,2,255} x count byte in {0 (=256),1,2,255}; offsets are the running sum of the skip bytes; later packets overwrite earlier ones", true);
        lists.par_iter().for_each(|l| {
            let case = || format!("{:?}", l);
            if !ctx.wants(fam, &case) {
                return;
            }
            let fmt = Fmt::Rgba;
            let mut f = gen::file(1, 1, &fmt, &[10]);
            let mut salt = 0u32;
            let packets: Vec<OldPacket> = l
                .iter()
                .map(|(s, c)| {
                    let n = if *c == 0 { 256 } else { *c as usize };
                    salt += 1;
                    OldPacket {
                        skip: *s,
                        count: *c,
                        colors: (0..n as u32).map(|i| if kind == 4 { [(i + salt * 40) as u8, (i * 3 + salt) as u8, (255 - i) as u8] } else { [((i + salt * 9) % 64) as u8, ((i * 3 + salt) % 64) as u8, (63 - i % 64) as u8] }).collect(),
                    }
                })
                .collect();
            let p = OldPalette { npackets: None, packets };
            f.frames[0].push(if kind == 4 { Body::OldPalette04(p) } else { Body::OldPalette11(p) });
            f.frames[0].push(Body::Layer(Layer::image("l")));
            conform(ctx, fam, &case, &f, &want);
        });
    }

    // 6-bit scaling: every component value in every channel slot
    if ctx.wants_family("six-bit") {
        let n = if thorough { 64 * 64 * 64 } else { 64 * 3 + 64 };
        ctx.family("six-bit", n as u64, "legacy 0x0011 colours: every component value 0..63 in each channel slot (others 0) and on the diagonal; thorough: all 64^3 triples", true);
        let mut cols: Vec<[u8; 3]> = Vec::new();
        if thorough {
            for r in 0..64u8 {
                for g in 0..64u8 {
                    for b in 0..64u8 {
                        cols.push([r, g, b]);
                    }
                }
            }
        } else {
            for v in 0..64u8 {
                cols.push([v, 0, 0]);
                cols.push([0, v, 0]);
                cols.push([0, 0, v]);
                cols.push([v, v, v]);
            }
        }
        let chunks: Vec<&[[u8; 3]]> = cols.chunks(256).collect();
        chunks.par_iter().enumerate().for_each(|(ci, ch)| {
            let case = || format!("chunk{}", ci);
            if !ctx.wants("six-bit", &case) {
                return;
            }
            let mut f = gen::file(1, 1, &Fmt::Rgba, &[10]);
            f.frames[0].push(Body::OldPalette11(old_palette(vec![(0, ch.to_vec())])));
            let mut w = want.clone();
            w.pal_probes = (0..257).collect();
            w.name_probes = vec!["".into()];
            w.id_probes = vec![0];
            conform(ctx, "six-bit", &case, &f, &w);
            ctx.eval_n(ch.len() as u64 - 1, 0);
        });
        // components 64..255 are not 6-bit values: not claimed either way
    }

    // precedence: new vs legacy in both orders
    if ctx.wants_family("precedence") {
        let mut cases = Vec::new();
        // order: 0 new then legacy (same frame), 1 legacy then new (same frame),
        //        2 new in frame 0 / legacy in frame 1, 3 legacy in frame 0 / new in frame 1, 4 new in frame 0 / legacy in frame 2
        for legacy in [4u16, 0x11] {
            for order in 0..5 {
                for indexed in 0..2 {
                    cases.push((legacy, order, indexed));
                }
            }
        }
        ctx.family("precedence", cases.len() as u64, "a new-format palette and a legacy chunk (0x0004 / 0x0011) with different contents, in both orders within a frame and across frames (new in frame 0 / legacy in frame 1 or 2, legacy in frame 0 / new in frame 1), RGBA and indexed (pixels decoded through the palette)", true);
        for (legacy, order, indexed) in cases {
            let case = || format!("legacy={:#x} order={} indexed={}", legacy, order, indexed);
            if !ctx.wants("precedence", &case) {
                continue;
            }
            let fmt = if indexed == 1 { Fmt::Indexed(1) } else { Fmt::Rgba };
            let mut f = gen::file(2, 1, &fmt, &[10, 20, 30]);
            let newp = new_palette(0, pal_entries(4, 9));
            let lp = old_palette(vec![(0, vec![[1, 2, 3], [4, 5, 6], [7, 8, 9], [10, 11, 12], [13, 14, 15]])]);
            let legp = if legacy == 4 { Body::OldPalette04(lp) } else { Body::OldPalette11(lp) };
            match order {
                0 => {
                    f.frames[0].push(newp);
                    f.frames[0].push(legp);
                }
                1 => {
                    f.frames[0].push(legp);
                    f.frames[0].push(newp);
                }
                2 => {
                    f.frames[0].push(newp);
                    f.frames[1].push(legp);
                }
                3 => {
                    f.frames[0].push(legp);
                    f.frames[1].push(newp);
                }
                _ => {
                    f.frames[0].push(newp);
                    f.frames[2].push(legp);
                }
            }
            f.frames[0].push(Body::Layer(Layer::image("l")));
            if indexed == 1 {
                f.frames[0].push(raw_cel(0, 0, 0, 255, 2, 1, vec![2, 3]));
            }
            conform(ctx, "precedence", &case, &f, &want);
        }
    }

    // completeness: sparse palettes x pixel buffers x carriers
    if ctx.wants_family("completeness") {
        let subsets: Vec<u32> = (0..256).collect();
        let mut buffers: Vec<Vec<u8>> = Vec::new();
        let maxlen = if thorough { 4 } else { 3 };
        for len in 1..=maxlen {
            for v in product_vec(&vec![9usize; len]) {
                buffers.push(v.iter().map(|x| *x as u8).collect());
            }
        }
        ctx.family("completeness", subsets.len() as u64 * buffers.len() as u64 * 3, &format!("every palette P subset of {{0..7}} (legacy 0x0004 packets, sparse) x every pixel buffer of length 1..{} over {{0..8}} x carrier {{raw cel, compressed cel, tileset}}: load fails iff some index is not in P; when it loads, the full observation is compared", maxlen), true);
        subsets.par_iter().for_each(|m| {
            let p: Vec<u32> = (0..8).filter(|i| m >> i & 1 == 1).collect();
            for buf in &buffers {
                for carrier in 0..3 {
                    let case = || format!("P={:08b} buf={:?} carrier={}", m, buf, carrier);
                    if !ctx.wants("completeness", &case) {
                        continue;
                    }
                    let fmt = Fmt::Indexed(2);
                    let mut f = gen::file(3, 2, &fmt, &[10]);
                    f.frames[0].push(Body::OldPalette04(old_palette(sparse_packets(&p, false))));
                    let w = buf.len() as u16;
                    match carrier {
                        0 | 1 => {
                            f.frames[0].push(Body::Layer(Layer::image("l")));
                            f.frames[0].push(if carrier == 0 { raw_cel(0, 0, 0, 255, w, 1, buf.clone()) } else { zcel(0, 0, 0, 255, w, 1, buf.clone(), 6) });
                        }
                        _ => {
                            f.frames[0].push(Body::Tileset(tileset(0, 1, w, 1, buf.clone(), "ts")));
                            f.frames[0].push(Body::Layer(Layer::tilemap("l", 0)));
                        }
                    }
                    let complete = buf.iter().all(|i| p.contains(&(*i as u32)));
                    if complete {
                        conform(ctx, "completeness", &case, &f, &want);
                    } else {
                        expect_err(ctx, "completeness", &case, &f.encode(), "a pixel index is absent from the palette");
                    }
                }
            }
        });
        ctx.sample(json!({"family": "completeness", "case": "P=10001101 buf=[0, 7, 4] carrier=2", "meaning": "palette holds indices {0,2,3,7}; a 3x1 tileset tile uses 0,7,4; 4 is missing so the load must fail"}));
    }

    // indexed files whose palette reaches past index 255 (ids that alias modulo 256)
    // large pixel buffers with ONE absent index at every interesting position (first, middle, each of the last 9)
    if ctx.wants_family("large-buffers") {
        let shapes: [(u16, u16); 10] = [(15, 17), (16, 16), (17, 17), (19, 15), (33, 9), (31, 31), (32, 32), (257, 1), (1, 263), (64, 65)];
        let mut cases: Vec<(usize, usize, usize)> = Vec::new();
        for sh in 0..shapes.len() {
            for carrier in 0..3usize {
                for pos in 0..12usize {
                    cases.push((sh, carrier, pos));
                }
            }
        }
        ctx.family("large-buffers", cases.len() as u64, "indexed buffers of 255 .. 4160 pixels (shapes whose pixel count is and is not a multiple of 8 / 16 / 64) in a raw cel / compressed cel / tileset, all pixels inside a 16-entry palette except ONE pixel of value 16 placed first / in the middle / at each of the last 9 positions, plus a control without it: load fails iff the absent index is there", true);
        cases.par_iter().for_each(|(sh, carrier, pos)| {
            let (w, h) = shapes[*sh];
            let n = w as usize * h as usize;
            let case = || format!("{}x{} carrier={} bad-position={}", w, h, ["raw cel", "zlib cel", "tileset"][*carrier], if *pos == 11 { "none".to_string() } else { pos.to_string() });
            if !ctx.wants("large-buffers", &case) {
                return;
            }
            let fmt = Fmt::Indexed(0);
            let mut px: Vec<u8> = (0..n).map(|i| (i * 7 % 16) as u8).collect();
            let at = match *pos {
                0 => Some(0),
                1 => Some(n / 2),
                p if p <= 10 => Some(n - 1 - (p - 2)),
                _ => None,
            };
            if let Some(a) = at {
                px[a] = 16;
            }
            let mut f = gen::file(4, 4, &fmt, &[10]);
            f.frames[0].push(new_palette(0, pal_entries(16, 2)));
            f.frames[0].push(Body::Layer(Layer::image("l")));
            match carrier {
                0 => {
                    f.frames[0].push(raw_cel(0, 0, 0, 255, w, h, px));
                }
                1 => {
                    f.frames[0].push(zcel(0, 0, 0, 255, w, h, px, 6));
                }
                _ => {
                    f.frames[0].push(Body::Tileset(tileset(0, 1, w, h, px, "t")));
                }
            }
            if at.is_some() {
                expect_err(ctx, "large-buffers", &case, &f.encode(), "a pixel's index is not in the palette");
            } else {
                let mut w2 = Want::all();
                w2.pal_probes = (0..18).collect();
                conform(ctx, "large-buffers", &case, &f, &w2);
            }
        });
    }
    // several named entries in one chunk: every ordered pair / triple of names of different lengths
    if ctx.wants_family("entry-names") {
        let nm = ["crimson", "sky", "", "ab", "a", "\u{e9}t\u{e9}", "a-much-longer-entry-name-than-the-others"];
        let mut cases: Vec<Vec<usize>> = Vec::new();
        for a in 0..nm.len() {
            for b in 0..nm.len() {
                cases.push(vec![a, b]);
                for c in 0..nm.len() {
                    cases.push(vec![a, b, c]);
                }
            }
        }
        ctx.family("entry-names", cases.len() as u64, "new palette chunk whose 2 or 3 entries all carry a name: every ordered pair and triple over 7 names of different lengths (incl. empty and multi-byte); each entry must report exactly its own name", true);
        cases.par_iter().for_each(|v| {
            let case = || format!("names={:?}", v.iter().map(|i| nm[*i]).collect::<Vec<_>>());
            if !ctx.wants("entry-names", &case) {
                return;
            }
            let mut f = gen::file(2, 2, &Fmt::Rgba, &[10]);
            let mut ents = pal_entries(v.len() + 1, 4);
            for (k, i) in v.iter().enumerate() {
                ents[k].flags = 1;
                ents[k].name = Str::new(nm[*i]);
            }
            f.frames[0].push(new_palette(0, ents));
            f.frames[0].push(Body::Layer(Layer::image("l")));
            conform(ctx, "entry-names", &case, &f, &want);
        });
    }
    if ctx.wants_family("alias-256") {
        let ranges: [(u32, usize); 6] = [(3, 256), (250, 10), (256, 45), (1, 300), (255, 2), (200, 100)];
        let mut cases = Vec::new();
        for (ri, _) in ranges.iter().enumerate() {
            for px in 0..=255u32 {
                for carrier in 0..2 {
                    cases.push((ri, px as u8, carrier));
                }
            }
        }
        ctx.family("alias-256", cases.len() as u64, "indexed sprites with new-format palettes [first, first+len) in {(3,256),(250,10),(256,45),(1,300),(255,2),(200,100)} x every pixel value 0..255 x carrier {cel, tileset}: load fails iff the pixel value itself is not a palette id (an id p+256 being present must not help)", true);
        cases.par_iter().for_each(|(ri, px, carrier)| {
            let (first, len) = ranges[*ri];
            let case = || format!("palette=[{},{}) pixel={} carrier={}", first, first as usize + len, px, carrier);
            if !ctx.wants("alias-256", &case) {
                return;
            }
            let fmt = Fmt::Indexed(*px);
            let mut f = gen::file(2, 1, &fmt, &[10]);
            f.frames[0].push(new_palette(first, pal_entries(len, first)));
            if *carrier == 0 {
                f.frames[0].push(Body::Layer(Layer::image("l")));
                f.frames[0].push(raw_cel(0, 0, 0, 255, 2, 1, vec![*px, *px]));
            } else {
                f.frames[0].push(Body::Tileset(tileset(0, 1, 2, 1, vec![*px, *px], "ts")));
                f.frames[0].push(Body::Layer(Layer::tilemap("l", 0)));
            }
            let present = (*px as u32) >= first && ((*px as u32) < first + len as u32);
            if present {
                conform(ctx, "alias-256", &case, &f, &want);
            } else {
                expect_err(ctx, "alias-256", &case, &f.encode(), "the pixel's index is not a palette id");
            }
        });
    }

    // every single index against U8 \ {i} (must fail) and {i} (must load); no palette at all
    if ctx.wants_family("single-index") {
        ctx.family("single-index", 256 * 4 + 6, "every index i in 0..255 as the only pixel against the palette 0..255 without i (fail) and the palette {i} (load), via legacy and new chunks; indexed sprites with pixels and no palette chunk at all (fail)", true);
        (0..256u32).into_par_iter().for_each(|i| {
            for variant in 0..4 {
                let case = || format!("i={} variant={}", i, variant);
                if !ctx.wants("single-index", &case) {
                    continue;
                }
                let fmt = Fmt::Indexed(((i + 7) % 256) as u8);
                let mut f = gen::file(1, 1, &fmt, &[10]);
                let without: Vec<u32> = (0..256).filter(|k| *k != i).collect();
                match variant {
                    0 => f.frames[0].push(Body::OldPalette04(old_palette(sparse_packets(&without, false)))),
                    1 => f.frames[0].push(Body::OldPalette11(old_palette(sparse_packets(&without, true)))),
                    2 => f.frames[0].push(Body::OldPalette04(old_palette(sparse_packets(&[i], false)))),
                    _ => f.frames[0].push(new_palette(i, pal_entries(1, i))),
                };
                f.frames[0].push(Body::Layer(Layer::image("l")));
                f.frames[0].push(raw_cel(0, 0, 0, 255, 1, 1, vec![i as u8]));
                if variant < 2 {
                    expect_err(ctx, "single-index", &case, &f.encode(), "the only pixel's index is absent from the palette");
                } else {
                    conform(ctx, "single-index", &case, &f, &want);
                }
            }
        });
        for carrier in 0..3 {
            for t in [0u8, 5] {
                let case = || format!("no-palette carrier={} t={}", carrier, t);
                let fmt = Fmt::Indexed(t);
                let mut f = gen::file(2, 1, &fmt, &[10]);
                match carrier {
                    0 | 1 => {
                        f.frames[0].push(Body::Layer(Layer::image("l")));
                        f.frames[0].push(if carrier == 0 { raw_cel(0, 0, 0, 255, 2, 1, vec![t, t]) } else { zcel(0, 0, 0, 255, 2, 1, vec![t, t], 6) });
                    }
                    _ => {
                        f.frames[0].push(Body::Tileset(tileset(0, 1, 2, 1, vec![t, t], "ts")));
                        f.frames[0].push(Body::Layer(Layer::tilemap("l", 0)));
                    }
                }
                expect_err(ctx, "single-index", &case, &f.encode(), "an indexed sprite has pixels but no palette");
            }
        }
    }
    ctx.finish()
}
