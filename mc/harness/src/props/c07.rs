//! C07 — observationally neutral encoding choices do not change the result.
//! Differential oracle: observe(variant) == observe(canonical); additionally the variant is
//! compared with the reference model's prediction.
use crate::common::*;
use crate::observe;
use mc_core::ase::*;
use mc_core::explore::*;
use mc_core::gen::{self, *};
use mc_core::obs::{first_diff, Obs, Want};
use mc_core::sem::{self, Fmt};
use rayon::prelude::*;
use serde_json::json;

#[derive(Clone, Debug)]
pub enum Choice {
    /// image cel (nth cel chunk): 0 keep, 1 raw, 2..=11 zlib level 0..9
    CelStorage(usize),
    /// tilemap cel / tileset zlib level: 0 keep, 1..=10 level 0..9
    TilemapLevel(usize),
    TilesetLevel(usize),
    /// frame: 0 Both, 1 OldOnly, 2 NewOnly
    CountStyle(usize),
    /// insert ignorable chunk kind k (1..=5) before position `pos` of frame (positions in the final order)
    Insert(usize, usize),
    /// trailing bytes on chunk (frame, idx): index into TRAILS
    Trailing(usize, usize),
    Tail,
    HeaderField(usize),
    LayerField(usize, usize),
    PixelRatio,
    PixelRatioSmall,
    /// redundant legacy chunk around the new palette chunk: 0 none, 1 before (0x0004), 2 after (0x0004), 3 before (0x0011), 4 after (0x0011)
    RedundantLegacy,
    /// permutation of the cel units of a frame
    CelOrder(usize),
}

pub struct Coord {
    pub choice: Choice,
    pub n: usize,
}

const TRAILS: [(usize, u8); 11] = [(0, 0), (1, 0), (2, 0), (7, 0), (8, 0), (255, 0), (1, 255), (2, 255), (7, 255), (8, 255), (255, 255)];
const TAILS: [usize; 4] = [0, 1, 16, 4096];

fn header_field_values() -> Vec<(&'static str, usize)> {
    vec![("file_size", 6), ("speed", 5), ("ph1", 4), ("ph2", 4), ("ignore", 3), ("ncolors", 5), ("grid_x", 5), ("grid_y", 5), ("grid_w", 5), ("grid_h", 5), ("reserved", 3)]
}

fn set_header_field(f: &mut File, which: usize, v: usize) {
    let h = &mut f.header;
    let u16s = [0u16, 1, 255, 32768, 65535];
    let u32s = [0u32, 1, 0x8000_0000, 0xFFFF_FFFF];
    match which {
        0 => h.file_size = [None, Some(0), Some(1), Some(127), Some(0x7FFF_FFFF), Some(0xFFFF_FFFF)][v],
        1 => h.speed = u16s[v],
        2 => h.ph1 = u32s[v],
        3 => h.ph2 = u32s[v],
        4 => h.ignore = [[0; 3], [255; 3], [1, 2, 3]][v],
        5 => h.ncolors = u16s[v],
        6 => h.grid_x = u16s[v] as i16,
        7 => h.grid_y = u16s[v] as i16,
        8 => h.grid_w = u16s[v],
        9 => h.grid_h = u16s[v],
        _ => h.reserved = [[0u8; 84], [255u8; 84], { let mut r = [0u8; 84]; for (i, b) in r.iter_mut().enumerate() { *b = i as u8 + 1; } r }][v],
    }
}

fn cel_units(fr: &Frame) -> Vec<(usize, usize)> {
    // (start, end) index ranges of cel units: a cel chunk plus the user-data / cel-extra chunks that follow it
    let mut units = Vec::new();
    let mut i = 0;
    while i < fr.chunks.len() {
        if fr.chunks[i].body.kind_name() == "cel" {
            let mut j = i + 1;
            while j < fr.chunks.len() && matches!(fr.chunks[j].body.kind_name(), "userdata" | "celextra") {
                j += 1;
            }
            units.push((i, j));
            i = j;
        } else {
            i += 1;
        }
    }
    units
}

pub fn coords_of(base: &File) -> Vec<Coord> {
    let mut v = Vec::new();
    let mut ncel = 0;
    let mut nts = 0;
    for (fi, fr) in base.frames.iter().enumerate() {
        for (ci, ch) in fr.chunks.iter().enumerate() {
            match &ch.body {
                Body::Cel(c) => {
                    match c.body {
                        CelBody::Raw { .. } | CelBody::Compressed { .. } => v.push(Coord { choice: Choice::CelStorage(ncel), n: 12 }),
                        CelBody::Tilemap { .. } => v.push(Coord { choice: Choice::TilemapLevel(ncel), n: 11 }),
                        _ => {}
                    }
                    ncel += 1;
                }
                Body::Tileset(_) => {
                    v.push(Coord { choice: Choice::TilesetLevel(nts), n: 11 });
                    nts += 1;
                }
                _ => {}
            }
            v.push(Coord { choice: Choice::Trailing(fi, ci), n: TRAILS.len() });
        }
        if !fr.chunks.is_empty() {
            v.push(Coord { choice: Choice::CountStyle(fi), n: 3 });
        }
        for pos in 0..=fr.chunks.len() {
            v.push(Coord { choice: Choice::Insert(fi, pos), n: N_IGNORABLE });
        }
        let units = cel_units(fr);
        if units.len() >= 2 && units.len() <= 4 && units.windows(2).all(|w| w[0].1 == w[1].0) {
            let n: usize = (1..=units.len()).product();
            v.push(Coord { choice: Choice::CelOrder(fi), n });
        }
    }
    v.push(Coord { choice: Choice::Tail, n: TAILS.len() });
    for (i, (_, n)) in header_field_values().iter().enumerate() {
        v.push(Coord { choice: Choice::HeaderField(i), n: *n });
    }
    let nl = count_kind(base, "layer");
    for l in 0..nl {
        for fld in 0..3 {
            v.push(Coord { choice: Choice::LayerField(l, fld), n: 4 });
        }
    }
    v.push(Coord { choice: Choice::PixelRatioSmall, n: 6 });
    if count_kind(base, "palette") == 1 {
        v.push(Coord { choice: Choice::RedundantLegacy, n: 5 });
    }
    v
}

pub fn apply(base: &File, coords: &[Coord], v: &[usize], pixel_ratio_full: Option<usize>) -> File {
    let mut f = base.clone();
    // phase 1: in-place choices
    for (c, x) in coords.iter().zip(v.iter()) {
        if *x == 0 {
            continue;
        }
        match &c.choice {
            Choice::CelStorage(n) => {
                let cel = cel_mut(&mut f, *n);
                let (w, h, data) = match &cel.body {
                    CelBody::Raw { w, h, data } | CelBody::Compressed { w, h, data, .. } => (*w, *h, data.clone()),
                    _ => unreachable!(),
                };
                cel.body = if *x == 1 { CelBody::Raw { w, h, data } } else { CelBody::Compressed { w, h, data, z: Zlib::Level(*x as u32 - 2) } };
            }
            Choice::TilemapLevel(n) => {
                if let CelBody::Tilemap { z, .. } = &mut cel_mut(&mut f, *n).body {
                    *z = Zlib::Level(*x as u32 - 1);
                }
            }
            Choice::TilesetLevel(n) => tileset_mut(&mut f, *n).z = Zlib::Level(*x as u32 - 1),
            Choice::CountStyle(fi) => f.frames[*fi].count_style = [CountStyle::Both, CountStyle::OldOnly, CountStyle::NewOnly][*x],
            Choice::Trailing(fi, ci) => {
                let (n, b) = TRAILS[*x];
                f.frames[*fi].chunks[*ci].trailing = vec![b; n];
            }
            Choice::Tail => f.tail = vec![0xA5; TAILS[*x]],
            Choice::HeaderField(i) => set_header_field(&mut f, *i, *x),
            Choice::LayerField(l, fld) => {
                let ly = layer_mut(&mut f, *l);
                let u = [0u16, 1, 32768, 65535][*x];
                match fld {
                    0 => ly.default_w = u,
                    1 => ly.default_h = u,
                    _ => ly.reserved = [[0; 3], [1, 2, 3], [255; 3], [0, 0, 128]][*x],
                }
            }
            Choice::PixelRatioSmall => {
                let (pw, ph) = [(1u8, 1u8), (0, 0), (0, 1), (1, 0), (0, 255), (255, 0)][*x];
                f.header.pixel_w = pw;
                f.header.pixel_h = ph;
            }
            _ => {}
        }
    }
    if let Some(k) = pixel_ratio_full {
        // k in 0..512: (0, k) for k < 256, (k-256, 0) otherwise
        if k < 256 {
            f.header.pixel_w = 0;
            f.header.pixel_h = k as u8;
        } else {
            f.header.pixel_w = (k - 256) as u8;
            f.header.pixel_h = 0;
        }
    }
    // phase 2: cel order
    for (c, x) in coords.iter().zip(v.iter()) {
        if let (Choice::CelOrder(fi), true) = (&c.choice, *x != 0) {
            let units = cel_units(&base.frames[*fi]);
            let perm = &permutations(units.len())[*x];
            let fr = &mut f.frames[*fi];
            let start = units[0].0;
            let end = units[units.len() - 1].1;
            let block: Vec<Chunk> = fr.chunks[start..end].to_vec();
            let mut newblock = Vec::new();
            for p in perm {
                let (a, b) = units[*p];
                newblock.extend_from_slice(&block[a - start..b - start]);
            }
            fr.chunks.splice(start..end, newblock);
        }
    }
    // phase 3: insertions, highest position first so that positions stay valid
    let mut ins: Vec<(usize, usize, Body)> = Vec::new();
    for (c, x) in coords.iter().zip(v.iter()) {
        if *x == 0 {
            continue;
        }
        match &c.choice {
            Choice::Insert(fi, pos) => ins.push((*fi, *pos, ignorable(*x).unwrap())),
            Choice::RedundantLegacy => {
                let (pf, pc) = positions(&f, "palette")[0];
                // the same colours as the new palette's first entries (redundant information)
                let cols: Vec<[u8; 3]> = match &f.frames[pf].chunks[pc].body {
                    Body::Palette(p) => p.entries.iter().take(256).map(|e| [e.rgba[0] >> 2, e.rgba[1] >> 2, e.rgba[2] >> 2]).collect(),
                    _ => unreachable!(),
                };
                let six = *x >= 3;
                let cols = if six { cols } else { cols.iter().map(|c| [c[0] << 2, c[1] << 2, c[2] << 2]).collect() };
                let body = if six { Body::OldPalette11(old_palette(vec![(0, cols)])) } else { Body::OldPalette04(old_palette(vec![(0, cols)])) };
                let pos = if *x % 2 == 1 { pc } else { pc + 1 };
                ins.push((pf, pos, body));
            }
            _ => {}
        }
    }
    ins.sort_by(|a, b| (b.0, b.1).cmp(&(a.0, a.1)));
    for (fi, pos, body) in ins {
        f.frames[fi].chunks.insert(pos, Chunk::new(body));
    }
    f
}

fn describe(coords: &[Coord], v: &[usize]) -> String {
    let parts: Vec<String> = coords.iter().zip(v.iter()).filter(|(_, x)| **x != 0).map(|(c, x)| format!("{:?}={}", c.choice, x)).collect();
    if parts.is_empty() {
        "canonical".into()
    } else {
        parts.join(",")
    }
}

struct Base {
    name: &'static str,
    file: File,
    want: Want,
    canon: Obs,
}

fn mk_base(name: &'static str, file: File) -> Base {
    let semv = sem::interpret(&file).expect("base inside the model");
    let mut want = Want::all();
    sem::default_probes(&semv, &mut want);
    let bytes = file.encode();
    let canon = match load(&bytes) {
        Loaded::Ok(f) => observe::observe(&f, &want),
        _ => Obs::default(),
    };
    Base { name, file, want, canon }
}

fn check_variant(ctx: &Ctx, fam: &str, base: &Base, case: &dyn Fn() -> String, f: &File, via_file: bool) {
    if !ctx.wants(fam, case) {
        return;
    }
    if via_file {
        // the same variant through the file-backed entry point
        let bytes = f.encode();
        // unique per call: two variants may encode to identical bytes and run concurrently
        static SEQ: std::sync::atomic::AtomicU64 = std::sync::atomic::AtomicU64::new(0);
        let p = std::env::temp_dir().join(format!("mc-c07-{}-{}.aseprite", std::process::id(), SEQ.fetch_add(1, std::sync::atomic::Ordering::Relaxed)));
        let r = std::fs::write(&p, &bytes).map_err(|e| e.to_string()).and_then(|_| {
            let r = std::panic::catch_unwind(|| asefile::AsepriteFile::read_file(&p));
            let _ = std::fs::remove_file(&p);
            match r {
                Ok(Ok(file)) => Ok(observe::observe(&file, &base.want)),
                Ok(Err(e)) => Err(format!("read_file refused the variant: {}", e)),
                Err(_) => Err(format!("read_file panicked: {}", observe::take_panic())),
            }
        });
        ctx.eval(1);
        match r {
            Ok(o) if o == base.canon => {}
            Ok(o) => ctx.violation(Violation { family: fam.into(), case: case(), sig: "read_file-differs-from-canonical".into(), detail: first_diff(&base.canon, &o), bytes: Some(bytes), extra: json!({"base": base.name}) }),
            Err(m) => ctx.violation(Violation { family: fam.into(), case: case(), sig: format!("read_file:{}", sig_of(&m)), detail: m, bytes: Some(bytes), extra: json!({"base": base.name}) }),
        }
    }
    let c = conform(ctx, fam, case, f, &base.want);
    if let Some(o) = &c.obs {
        if *o != base.canon {
            let d = first_diff(&base.canon, o);
            ctx.violation(Violation { family: fam.into(), case: case(), sig: format!("differs-from-canonical:{}", sig_of(d.split(" : ").next().unwrap_or(""))), detail: d, bytes: Some(f.encode()), extra: json!({"base": base.name}) });
        }
    }
}

pub fn run(ctx: &Ctx) -> i32 {
    let thorough = ctx.tier == Tier::Thorough;
    // a 4-cel single-frame sprite for cel-order / storage interactions
    let four = {
        let fmt = Fmt::Rgba;
        let mut f = gen::file(3, 3, &fmt, &[10]);
        f.frames[0].push(new_palette(0, pal_entries(4, 1)));
        for i in 0..4u16 {
            let mut l = Layer::image(&format!("l{}", i));
            l.blend = [0u16, 1, 2, 16][i as usize];
            f.frames[0].push(Body::Layer(l));
        }
        for i in 0..4u16 {
            f.frames[0].push(zcel(i, i as i16 - 1, 1 - i as i16, 200, 2, 2, pixels(&fmt, 2, 2, i as u32, (0, 0)), 6));
            if i % 2 == 0 {
                f.frames[0].push(Body::UserData(UserData::text(&format!("c{}", i))));
            }
        }
        f
    };
    let bases: Vec<(Base, usize)> = vec![
        (mk_base("b1", gen::b1()), 2),
        (mk_base("b2", gen::b2()), if thorough { 2 } else { 1 }),
        // frames of duration 0 (a reader might fall back to the header's deprecated speed field)
        (mk_base("b1z", {
            let mut f = gen::b1();
            for (i, fr) in f.frames.iter_mut().enumerate() {
                if i % 2 == 1 || i + 1 == 0 {
                    fr.duration = 0;
                }
            }
            f.frames[0].duration = 0;
            f
        }), 1),
        (mk_base("b3", gen::b3()), if thorough { 2 } else { 1 }),
        (mk_base("d1", gen::d1(&Fmt::Rgba)), if thorough { 2 } else { 1 }),
        (mk_base("d1i", gen::d1(&Fmt::Indexed(4))), 1),
        (mk_base("four", four), if thorough { 3 } else { 2 }),
        (mk_base("big", gen::big()), 1),
    ];
    for (base, k) in &bases {
        let fam = format!("ball-{}-k{}", base.name, k);
        if !ctx.wants_family(&fam) {
            continue;
        }
        let coords = coords_of(&base.file);
        let dims: Vec<usize> = coords.iter().map(|c| c.n).collect();
        let vecs = ball_vec(&dims, *k);
        ctx.family(&fam, vecs.len() as u64, &format!("{}: all vectors within Hamming distance {} of the canonical encoding over {} choice points (loaded through AsepriteFile::read, and for single deviations and size-field / tail variants also through read_file on a temporary file; cel storage raw/zlib0-9, tilemap/tileset zlib level, chunk-count style, ignorable chunk at every boundary, trailing bytes per chunk, bytes after the last frame, unused header and layer fields, zero pixel-ratio component, redundant legacy palette, cel chunk order)", base.name, k, coords.len()), true);
        vecs.par_iter().for_each(|v| {
            let case = || describe(&coords, v);
            if !ctx.wants(&fam, &case) {
                return;
            }
            let f = apply(&base.file, &coords, v, None);
            // single deviations, and anything touching the size field or the tail, also go through read_file
            let nz = v.iter().filter(|x| **x != 0).count();
            let touches_size = coords.iter().zip(v.iter()).any(|(c, x)| *x != 0 && matches!(c.choice, Choice::Tail | Choice::HeaderField(0)));
            check_variant(ctx, &fam, base, &case, &f, nz <= 1 || touches_size);
        });
        if base.name == "b1" {
            ctx.sample(json!({"family": fam, "case": describe(&coords, &vecs[vecs.len() / 3]), "meaning": "encoding choices that differ from the canonical file; whole-API observation must equal the canonical one"}));
        }
        // uniform vectors: every choice point at the same non-default value index
        let fam_u = format!("uniform-{}", base.name);
        if ctx.wants_family(&fam_u) {
            let maxn = dims.iter().copied().max().unwrap_or(1);
            ctx.family(&fam_u, (maxn - 1) as u64, "every choice point simultaneously at its j-th alternative (j = 1..max alphabet size, clipped per coordinate)", true);
            for j in 1..maxn {
                let v: Vec<usize> = coords.iter().map(|c| if c.n > 1 { 1 + (j - 1) % (c.n - 1) } else { 0 }).collect();
                let case = || format!("uniform j={}", j);
                let f = apply(&base.file, &coords, &v, None);
                check_variant(ctx, &fam_u, base, &case, &f, true);
            }
        }
        // the full pixel-ratio sweep
        let fam_p = format!("pixel-ratio-{}", base.name);
        if ctx.wants_family(&fam_p) {
            ctx.family(&fam_p, 512, "pixel ratio (0,x) and (x,0) for every x in 0..255", true);
            let zero = vec![0usize; coords.len()];
            (0..512usize).into_par_iter().for_each(|kk| {
                let case = || format!("ratio#{}", kk);
                let f = apply(&base.file, &coords, &zero, Some(kk));
                check_variant(ctx, &fam_p, base, &case, &f, kk % 64 == 0);
            });
        }
    }
    // frames with 65534 / 65535 / 65536 / 70000 chunks under every count style that can carry the count
    if ctx.wants_family("many-chunks") {
        let mut cases: Vec<(usize, CountStyle)> = Vec::new();
        for n in [65534usize, 65535, 65536, 70000] {
            cases.push((n, CountStyle::Both));
            cases.push((n, CountStyle::NewOnly));
            if n <= 65535 {
                // (old = n, new = 0): for n = 65535 the old field reads 0xFFFF and the new one 0
                cases.push((n, CountStyle::OldOnly));
            }
        }
        ctx.family("many-chunks", cases.len() as u64, "one frame with 65534 / 65535 / 65536 / 70000 chunks (ignorable chunks between a layer and its cel) under every count-field style that can carry the count, including (old = 0xFFFF, new = 0) = exactly 65535 chunks; a second frame follows", true);
        cases.par_iter().for_each(|(n, style)| {
            let case = || format!("{} chunks {:?}", n, style);
            if !ctx.wants("many-chunks", &case) {
                return;
            }
            let fmt = Fmt::Rgba;
            let mut f = gen::file(2, 2, &fmt, &[10, 20]);
            f.frames[0].push(Body::Layer(Layer::image("l")));
            for _ in 0..n - 2 {
                f.frames[0].push(Body::Path);
            }
            f.frames[0].push(raw_cel(0, 0, 0, 255, 2, 2, pixels(&fmt, 2, 2, 1, (0, 0))));
            f.frames[0].count_style = *style;
            f.frames[1].push(raw_cel(0, 1, 0, 255, 1, 1, pixels(&fmt, 1, 1, 2, (0, 0))));
            conform(ctx, "many-chunks", &case, &f, &Want::all());
        });
    }

    // large, highly compressible payloads under every storage choice
    if ctx.wants_family("compressible-large") {
        // (label, format, w, h, canvas w, canvas h)
        let mut shapes: Vec<(&str, Fmt, u16, u16, u16, u16)> = vec![
            ("rgba 256x256", Fmt::Rgba, 256, 256, 8, 8),
            ("rgba 512x512", Fmt::Rgba, 512, 512, 8, 8),
            ("rgba 512x512 full canvas", Fmt::Rgba, 512, 512, 512, 512),
            ("rgba 1024x384", Fmt::Rgba, 1024, 384, 8, 8),
            ("indexed 1024x1024", Fmt::Indexed(0), 1024, 1024, 8, 8),
            ("gray 1024x1024", Fmt::Gray, 1024, 1024, 8, 8),
        ];
        if thorough {
            shapes.push(("rgba 2048x2048", Fmt::Rgba, 2048, 2048, 8, 8));
            shapes.push(("indexed 4096x4096", Fmt::Indexed(0), 4096, 4096, 8, 8));
            shapes.push(("rgba 1024x1024 full canvas", Fmt::Rgba, 1024, 1024, 1024, 1024));
        }
        let contents = ["zeros", "solid", "two-row stripes", "noise"];
        let levels: Vec<Option<u32>> = vec![None, Some(0), Some(1), Some(2), Some(3), Some(6), Some(9)];
        let mut cases: Vec<(usize, usize, usize)> = Vec::new(); // (shape, content, carrier)
        for s in 0..shapes.len() {
            for c in 0..contents.len() {
                for carrier in 0..3 {
                    cases.push((s, c, carrier));
                }
            }
        }
        ctx.family("compressible-large", (cases.len() * levels.len()) as u64, &format!("{} payload shapes (256 KiB .. 4 MiB{}) x content {{all zeros, one solid colour, two-row stripes, noise}} x carrier {{image cel, tileset pixels, tilemap tile ids}} stored raw (cels) and at zlib levels 0/1/2/3/6/9: the deflate ratio of the uniform contents is above 1000:1 from level 2 on; every storage choice must load and give the observation of the first one", shapes.len(), if thorough { ", thorough: 16 MiB" } else { "" }), true);
        cases.par_iter().for_each(|(si, ci, carrier)| {
            let (sl, fmt, w, h, cw, ch) = &shapes[*si];
            let bpp = fmt.bpp();
            let n = *w as usize * *h as usize;
            let px: Vec<u8> = match ci {
                0 => vec![0u8; n * bpp],
                1 => match fmt {
                    Fmt::Rgba => [200u8, 100, 50, 255].iter().cycle().take(n * 4).copied().collect(),
                    Fmt::Gray => [90u8, 255].iter().cycle().take(n * 2).copied().collect(),
                    Fmt::Indexed(_) => vec![2u8; n],
                },
                2 => (0..n * bpp).map(|i| if (i / (*w as usize * bpp)) % 2 == 0 { 3 } else { 1 }).collect(),
                _ => {
                    let mut x = 0x2545F491u32;
                    (0..n * bpp)
                        .map(|_| {
                            x ^= x << 13;
                            x ^= x >> 17;
                            x ^= x << 5;
                            if matches!(fmt, Fmt::Indexed(_)) {
                                (x % 4) as u8
                            } else {
                                x as u8
                            }
                        })
                        .collect()
                }
            };
            let build = |lvl: Option<u32>| -> Option<File> {
                let mut f = gen::file(*cw, *ch, fmt, &[10]);
                f.frames[0].push(new_palette(0, pal_entries(4, 1)));
                match carrier {
                    0 => {
                        f.frames[0].push(Body::Layer(Layer::image("l")));
                        f.frames[0].push(match lvl {
                            None => raw_cel(0, 0, 0, 255, *w, *h, px.clone()),
                            Some(l) => zcel(0, 0, 0, 255, *w, *h, px.clone(), l),
                        });
                    }
                    1 => {
                        // tiles of 64 x 64
                        let lvl = lvl?;
                        let ntiles = (n / (64 * 64)) as u32;
                        let mut ts = tileset(0, ntiles, 64, 64, px.clone(), "t");
                        ts.z = Zlib::Level(lvl);
                        f.frames[0].push(Body::Tileset(ts));
                        f.frames[0].push(Body::Layer(Layer::tilemap("l", 0)));
                        f.frames[0].push(tm_cel(0, 0, 0, 255, 2, 2, vec![0, 1, 2, 3]));
                    }
                    _ => {
                        // tile ids: the payload interpreted as n*bpp/4 tile ids of a 4-tile tileset of 1x1 tiles
                        let lvl = lvl?;
                        let ids: Vec<u32> = px.chunks_exact(4).map(|c| (c[0] as u32) % 4).collect();
                        let tw = *w;
                        let th = (ids.len() / tw as usize) as u16;
                        f.frames[0].push(Body::Tileset(tileset(0, 4, 1, 1, tile_pixels(fmt, 4, 1, 1, 3, (1, 3)), "t")));
                        f.frames[0].push(Body::Layer(Layer::tilemap("l", 0)));
                        let mut c = tm_cel(0, 0, 0, 255, tw, th, ids[..tw as usize * th as usize].to_vec());
                        if let Body::Cel(cc) = &mut c {
                            if let CelBody::Tilemap { z, .. } = &mut cc.body {
                                *z = Zlib::Level(lvl);
                            }
                        }
                        f.frames[0].push(c);
                    }
                }
                Some(f)
            };
            let mut want = Want::all();
            let mut canon: Option<Obs> = None;
            for lvl in &levels {
                let case = || format!("{} {} in {} stored {}", sl, contents[*ci], ["an image cel", "a tileset", "a tilemap cel"][*carrier], lvl.map_or("raw".to_string(), |l| format!("zlib level {}", l)));
                let Some(f) = build(*lvl) else { continue };
                if !ctx.wants("compressible-large", &case) && canon.is_some() {
                    continue;
                }
                let bytes = f.encode();
                ctx.eval(1);
                match load(&bytes) {
                    Loaded::Ok(file) => {
                        let o = observe::observe(&file, &want);
                        ctx.outcome(hash64(&(si, ci, carrier, o.frames.first().map(|f| f.image.clone()))));
                        match &canon {
                            None => canon = Some(o),
                            Some(c) if *c == o => {}
                            Some(c) => ctx.violation(Violation { family: "compressible-large".into(), case: case(), sig: "differs-from-first-storage".into(), detail: first_diff(c, &o), bytes: None, extra: json!({}) }),
                        }
                    }
                    Loaded::Err(e) => ctx.violation(Violation { family: "compressible-large".into(), case: case(), sig: format!("refused:{}", sig_of(&e.to_string())), detail: format!("a valid file ({} bytes) was refused: {}", bytes.len(), e), bytes: if bytes.len() < 300_000 { Some(bytes) } else { None }, extra: json!({}) }),
                    Loaded::Panic(m) => ctx.violation(Violation { family: "compressible-large".into(), case: case(), sig: format!("panic:{}", sig_of(&m)), detail: m, bytes: None, extra: json!({}) }),
                }
            }
        });
    }
    ctx.note("the header flag word is held at 1: Aseprite gives bit 0 a meaning (layer opacity valid), so varying it is not neutral and is not claimed");
    ctx.finish()
}
