//! C19 — all access paths to a cel agree; single-layer frames equal the cel image.
use crate::common::*;
use mc_core::ase::*;
use mc_core::explore::*;
use mc_core::gen::{self, *};
use mc_core::obs::{Obs, Want};
use mc_core::sem::Fmt;
use rayon::prelude::*;
use serde_json::json;

/// Direct (model-free) checks on one observation.
pub fn direct_checks(o: &Obs) -> Option<String> {
    if !o.routes_agree {
        return Some(format!("routes disagree: {}", o.route_mismatch.clone().unwrap_or_default()));
    }
    let nl = o.num_layers as usize;
    for (f, fr) in o.frames.iter().enumerate() {
        // coordinates reported by each cel
        for l in 0..nl {
            let c = &o.cels[f * nl + l];
            if c.frame as usize != f || c.layer as usize != l {
                return Some(format!("cel({},{}) reports coordinates ({},{})", f, l, c.frame, c.layer));
            }
        }
        // exactly one visible layer with a cel => frame image == that cel image
        let with: Vec<usize> = (0..nl).filter(|l| o.layers[*l].visible && !o.cels[f * nl + l].empty).collect();
        if with.len() == 1 {
            let c = &o.cels[f * nl + with[0]];
            if fr.image != c.image {
                return Some(format!("frame {} has exactly one visible layer with a cel ({}), but frame image {:?} != cel image {:?}", f, with[0], fr.image, c.image));
            }
        }
    }
    for tm in o.tilemaps.iter().flatten() {
        let c = &o.cels[tm.frame as usize * nl + tm.layer as usize];
        if tm.image != c.image {
            return Some(format!("tilemap({},{}).image != cel({},{}).image", tm.layer, tm.frame, tm.frame, tm.layer));
        }
    }
    None
}

pub fn run(ctx: &Ctx) -> i32 {
    let want = Want::all();
    let shapes: Vec<(usize, usize)> = if ctx.tier == Tier::Thorough { vec![(2, 3), (3, 2), (1, 4), (4, 1), (3, 3), (2, 5), (5, 2)] } else { vec![(2, 3), (3, 2), (1, 4), (4, 1)] };
    // variant: 0 plain, 1 one linked cell, 2 one tilemap layer, 3 one hidden layer, 4 non-Normal blend, 5 hidden group parent,
    // 6 every layer at opacity 255 with cels fully inside the canvas and reduced cel opacity,
    // 7 / 8 the lowest / highest layer hidden and a non-zero z-index in every cel chunk,
    // 9 / 10 an indexed sprite (transparent index in use) whose lowest layer is a hidden / visible background layer,
    // 11 / 12 layer flag words with the reference, background, locked ... bits set (with / without the visible bit),
    // 13 the middle layer hidden and every cel of the later frames a link to frame 0 (where frame 0 has a cel on that layer),
    // 14 the cel chunks of every frame stored out of layer order,
    // 15 every layer a tilemap layer, the later frames made of links to frame 0
    let mut cases = Vec::new();
    for (si, (nf, nl)) in shapes.iter().enumerate() {
        for m in 0..(1u32 << (nf * nl)) {
            for variant in 0..16 {
                cases.push((si, m, variant));
            }
        }
    }
    let fam = "cells";
    ctx.family(fam, cases.len() as u64, "shapes (frames,layers) in {(2,3),(3,2),(1,4),(4,1)} (thorough: + (3,3),(2,5),(5,2)): every subset of the F*L cells present, each with unique offset, pixels, opacity and user-data record; variants: plain / one linked cell / a tilemap layer / a hidden layer / a non-Normal blend mode / a hidden group parent / all layers at opacity 255 with in-canvas cels of reduced cel opacity / a non-zero z-index field in every cel chunk with the lowest or the highest layer hidden / an indexed sprite with the transparent index in use whose lowest layer is a hidden or a visible background layer / layer flag words carrying the reference, background, locked, continuous and collapsed bits / the middle layer hidden and the later frames made of links to frame 0 / cel chunks stored out of layer order / tilemap layers only, with linked cels in the later frames. Three routes must agree; single-visible-layer frames must equal the cel image; tilemap image must equal its cel image (checked directly on the library's outputs and against the model)", true);
    let fmt = Fmt::Rgba;
    cases.par_iter().for_each(|(si, m, variant)| {
        let case = || format!("shape={:?} present={:b} variant={}", shapes[*si], m, variant);
        if !ctx.wants(fam, &case) {
            return;
        }
        let (nf, nl) = shapes[*si];
        let d: Vec<u16> = (0..nf as u16).map(|i| 30 + i).collect();
        // variants 9 / 10: an indexed sprite whose lowest layer is a hidden / visible background layer
        let fmt = if *variant >= 9 { Fmt::Indexed(0) } else { fmt.clone() };
        let mut f = gen::file(4, 3, &fmt, &d);
        if *variant >= 9 {
            f.frames[0].push(new_palette(0, pal_entries(6, 2)));
        }
        let tm_layer = if *variant == 2 { Some(nl - 1) } else { None };
        let all_tm = *variant == 15;
        if tm_layer.is_some() || all_tm {
            f.frames[0].push(Body::Tileset(tileset(4, 4, 2, 1, tile_pixels(&fmt, 4, 2, 1, 3, (0, 0)), "ts")));
        }
        let mut shift = 0u16;
        if *variant == 5 {
            let mut g = Layer::group("hidden-group");
            g.flags = 2;
            f.frames[0].push(Body::Layer(g));
            shift = 1;
        }
        for l in 0..nl {
            let mut ly = if tm_layer == Some(l) || all_tm { Layer::tilemap(&format!("l{}", l), 4) } else { Layer::image(&format!("l{}", l)) };
            ly.opacity = if *variant == 6 { 255 } else { 255 - 10 * l as u8 };
            if (*variant == 3 || *variant == 7) && l == 0 {
                ly.flags = 2;
            }
            if *variant == 8 && l + 1 == nl {
                ly.flags = 2;
            }
            if *variant == 9 && l == 0 {
                ly.flags = 2 | 8;
            }
            if *variant == 11 {
                // visible + reference / visible + every other defined bit: only bit 0 decides
                ly.flags = [1 | 0x40, 1 | 2 | 4 | 8 | 0x10 | 0x20 | 0x40][l % 2];
            }
            if *variant == 12 {
                ly.flags = if l % 2 == 0 { 0x40 | 2 } else { 1 | 0x40 };
            }
            if *variant == 13 && l == (nl - 1) / 2 {
                ly.flags = 2;
            }
            if *variant == 10 && l == 0 {
                ly.flags = 1 | 8;
            }
            if *variant == 4 {
                ly.blend = [1u16, 5, 13, 17][l % 4];
            }
            if *variant == 5 && l == 0 {
                ly.level = 1;
            }
            f.frames[0].push(Body::Layer(ly));
        }
        let mut first_real: Option<(usize, usize)> = None;
        for fr in 0..nf {
            for l in 0..nl {
                if m >> (fr * nl + l) & 1 == 0 {
                    continue;
                }
                let li = l as u16 + shift;
                let uid = (fr * nl + l) as u32;
                let (x, y, op) = if *variant == 6 { ((fr % 3) as i16, (l % 2) as i16, 200 - uid as u8 * 9) } else { (fr as i16 - 1, l as i16 - 1, 255 - uid as u8 * 3) };
                let body = if all_tm && fr > 0 && m >> l & 1 == 1 {
                    // variant 15: every layer is a tilemap layer and the later frames link to frame 0
                    link_cel(li, x, y, op, 0)
                } else if tm_layer == Some(l) || all_tm {
                    tm_cel(li, x * 2, y, op, 2, 2, vec![1 + uid % 3, 2, 3, uid % 4])
                } else if *variant == 1 && first_real.map_or(false, |(rf, rl)| rl == l && rf != fr) {
                    link_cel(li, x, y, op, first_real.unwrap().0 as u16)
                } else if *variant == 13 && fr > 0 && m >> l & 1 == 1 {
                    // every cel of a later frame is a link to frame 0 wherever frame 0 has a cel on that layer
                    link_cel(li, x, y, op, 0)
                } else {
                    if first_real.is_none() && *variant == 1 {
                        first_real = Some((fr, l));
                    }
                    raw_cel(li, x, y, op, 2, 2, pixels(&fmt, 2, 2, uid + 1, (0, 5)))
                };
                let mut body = body;
                if *variant >= 7 {
                    // the cel chunk's z-index field: the property composes by layer index only
                    if let Body::Cel(c) = &mut body {
                        c.z_index = [1i16, -1, 2, -2, 32767, -32768, 3, -3][(uid as usize + *variant) % 8];
                    }
                }
                f.frames[fr].push(body);
                f.frames[fr].push(Body::UserData(UserData::both(&format!("cel {} {}", fr, l), [uid as u8, 1, 2, 3])));
            }
        }
        if *variant == 14 {
            // the cel chunks of every frame (each with the record that follows it) rotated and partly swapped,
            // so that they are not in layer order and the last two of a frame are
            for fr in f.frames.iter_mut() {
                let first_cel = fr.chunks.iter().position(|c| matches!(c.body, Body::Cel(_))).unwrap_or(fr.chunks.len());
                let mut pairs: Vec<Vec<Chunk>> = fr.chunks.split_off(first_cel).chunks(2).map(|p| p.to_vec()).collect();
                if pairs.len() >= 2 {
                    pairs.rotate_left(1);
                    let n = pairs.len();
                    if n >= 3 {
                        pairs.swap(0, n - 1);
                        pairs.rotate_right(1);
                    }
                }
                fr.chunks.extend(pairs.into_iter().flatten());
            }
        }
        let c = conform(ctx, fam, &case, &f, &want);
        if let Some(o) = &c.obs {
            if let Some(msg) = direct_checks(o) {
                ctx.violation(Violation { family: fam.into(), case: case(), sig: format!("direct:{}", sig_of(&msg)), detail: msg, bytes: Some(f.encode()), extra: json!({}) });
            }
        }
    });
    ctx.sample(json!({"family": fam, "case": "shape=(2, 3) present=101101 variant=1", "meaning": "2 frames x 3 layers, cells (f,l) present where bit f*3+l is set; one of them is a linked cel"}));

    // large indices: more than 256 frames / layers, so truncated or packed coordinates alias
    if ctx.wants_family("wide") {
        let shapes: [(usize, usize); 4] = [(2, 300), (300, 2), (257, 3), (3, 258)];
        let cases: Vec<(usize, u32)> = (0..shapes.len()).flat_map(|s| (0..4u32).map(move |p| (s, p))).collect();
        ctx.family("wide", cases.len() as u64, "shapes (frames,layers) in {(2,300),(300,2),(257,3),(3,258)} x 4 presence patterns with unique cels: indices beyond 255 in either coordinate (a coordinate truncated to 8 bits, or two coordinates packed too tightly, would alias distinct cels); three routes, images, user data vs the model and the direct checks", true);
        cases.par_iter().for_each(|(si, p)| {
            let case = || format!("shape={:?} pattern={}", shapes[*si], p);
            if !ctx.wants("wide", &case) {
                return;
            }
            let (nf, nl) = shapes[*si];
            let f = gen::wide(nf, nl, *p);
            let c = conform(ctx, "wide", &case, &f, &want);
            if let Some(o) = &c.obs {
                if let Some(msg) = direct_checks(o) {
                    ctx.violation(Violation { family: "wide".into(), case: case(), sig: format!("direct:{}", sig_of(&msg)), detail: msg, bytes: None, extra: json!({}) });
                }
            }
        });
    }


    // cels whose pixel extent reaches or exceeds 65536 on an axis, at offsets that put only a part on the canvas
    if ctx.wants_family("large-extent") {
        // (kind 0 tilemap / 1 image, vertical, tiles or pixels along the axis, tile extent, offset)
        let mut cases: Vec<(u8, bool, u32, u16, i16)> = Vec::new();
        for vertical in [false, true] {
            for (n, t) in [(255u32, 256u16), (256, 256), (257, 256), (512, 256), (1024, 64), (1025, 64), (300, 300)] {
                let extent = n as i64 * t as i64;
                let mut offs: Vec<i64> = vec![0, -1, -(t as i64), -(extent % 65536), -(extent % 65536) - 1, -(extent - 4).min(32768), -32768, 3];
                offs.sort();
                offs.dedup();
                for o in offs {
                    if o >= -32768 {
                        cases.push((0, vertical, n, t, o as i16));
                    }
                }
            }
            for n in [32767u32, 32768, 32769, 65535] {
                for o in [0i16, -1, -32768, -(n.min(32768) as i32 - 4) as i16, 3] {
                    cases.push((1, vertical, n, 1, o));
                }
            }
        }
        ctx.family("large-extent", cases.len() as u64, "one tilemap cel of N tiles of extent T along one axis with N*T in {65280, 65536, 65792, 90000, 131072, 65600} (or one image cel 32767 / 32768 / 32769 / 65535 pixels long) on an 8x4 canvas, at offsets {0, -1, 3, -T, -(N*T mod 65536), that minus 1, -(extent-4), -32768}, x axis and y axis: the frame image, the cel image and the tilemap image must agree with each other and with the model", true);
        cases.par_iter().for_each(|(kind, vertical, n, t, off)| {
            let case = || format!("kind={} axis={} n={} t={} offset={}", if *kind == 0 { "tilemap" } else { "image" }, if *vertical { "y" } else { "x" }, n, t, off);
            if !ctx.wants("large-extent", &case) {
                return;
            }
            let mut f = gen::file(8, 4, &fmt, &[10]);
            let (ox, oy) = if *vertical { (0i16, *off) } else { (*off, 0i16) };
            if *kind == 0 {
                let (tw, th) = if *vertical { (2u16, *t) } else { (*t, 2u16) };
                // two tiles: tile 0 transparent, tile 1 position-coded
                let per = tw as usize * th as usize;
                let mut px = vec![0u8; per * 4];
                for i in 0..per {
                    px.extend_from_slice(&[(i % 251) as u8, (i / 251 % 256) as u8, 77, 255]);
                }
                f.frames[0].push(Body::Tileset(tileset(0, 2, tw, th, px, "t")));
                f.frames[0].push(Body::Layer(Layer::tilemap("m", 0)));
                let (mw, mh) = if *vertical { (1u16, *n as u16) } else { (*n as u16, 1u16) };
                f.frames[0].push(tm_cel(0, ox, oy, 255, mw, mh, vec![1; *n as usize]));
            } else {
                f.frames[0].push(Body::Layer(Layer::image("l")));
                let (w, h) = if *vertical { (1u16, *n as u16) } else { (*n as u16, 1u16) };
                let data: Vec<u8> = (0..*n).flat_map(|i| [(i % 251) as u8, (i / 251 % 256) as u8, 99, 255]).collect();
                f.frames[0].push(zcel(0, ox, oy, 255, w, h, data, 1));
            }
            let c = conform(ctx, "large-extent", &case, &f, &want);
            if let Some(o) = &c.obs {
                if let Some(msg) = direct_checks(o) {
                    ctx.violation(Violation { family: "large-extent".into(), case: case(), sig: format!("direct:{}", sig_of(&msg)), detail: msg, bytes: None, extra: json!({}) });
                }
            }
        });
    }

    // more than 65536 layers: coordinates that do not fit 16 bits
    if ctx.wants_family("beyond-u16") {
        let cases: Vec<(usize, usize)> = vec![(65536, 1), (65537, 1), (65540, 2), (70000, 1)];
        ctx.family("beyond-u16", cases.len() as u64, "sprites with 65536 / 65537 / 65540 / 70000 layers and 1-2 frames, cels on a few low layers: for every (f,l) the three routes must report the coordinates (f,l) themselves, and the cells of layers beyond 65535 (which no cel chunk can address) must be empty", true);
        cases.par_iter().for_each(|(nl, nf)| {
            let case = || format!("layers={} frames={}", nl, nf);
            if !ctx.wants("beyond-u16", &case) {
                return;
            }
            let d: Vec<u16> = (0..*nf as u16).map(|i| 10 + i).collect();
            let mut f = gen::file(4, 3, &fmt, &d);
            for _ in 0..*nl {
                f.frames[0].push(Body::Layer(Layer::image("")));
            }
            for fr in 0..*nf {
                for l in [0u16, 1, 4, 7] {
                    f.frames[fr].push(raw_cel(l, (l % 3) as i16, fr as i16, 200 + l as u8, 2, 2, pixels(&fmt, 2, 2, l as u32 + 9 * fr as u32, (0, 0))));
                    f.frames[fr].push(Body::UserData(UserData::text(&format!("cel {} {}", fr, l))));
                }
            }
            let c = conform(ctx, "beyond-u16", &case, &f, &want);
            if let Some(o) = &c.obs {
                if let Some(msg) = direct_checks(o) {
                    ctx.violation(Violation { family: "beyond-u16".into(), case: case(), sig: format!("direct:{}", sig_of(&msg)), detail: msg, bytes: None, extra: json!({}) });
                }
            }
        });
    }

    // loadable but irregular nesting (levels that skip, e.g. 0 -> 2): outside the reference model,
    // inside C19's quantifier ("all loadable sprites"); direct oracle only
    if ctx.wants_family("loose-levels") {
        let mut seqs: Vec<Vec<u16>> = Vec::new();
        for n in 1..=4usize {
            for v in product_vec(&vec![4usize; n]) {
                seqs.push(v.iter().map(|x| *x as u16).collect());
            }
        }
        ctx.family("loose-levels", seqs.len() as u64 * 16, "every child-level sequence of length <= 4 over {0,1,2,3} (forest or not) x every visible-flag assignment, image layers each with a distinct cel, 2 frames; whatever loads must satisfy the direct checks (routes agree, single-visible-layer frame == cel image)", true);
        seqs.par_iter().for_each(|lv| {
            let n = lv.len();
            for vis in 0..(1u32 << n) {
                let case = || format!("levels={:?} vis={:b}", lv, vis);
                if !ctx.wants("loose-levels", &case) {
                    continue;
                }
                let mut f = gen::file(4, 3, &fmt, &[10, 20]);
                for (i, l) in lv.iter().enumerate() {
                    let mut ly = Layer::image(&format!("l{}", i));
                    ly.level = *l;
                    ly.flags = if vis >> i & 1 == 1 { 3 } else { 2 };
                    f.frames[0].push(Body::Layer(ly));
                }
                for i in 0..n {
                    f.frames[i % 2].push(raw_cel(i as u16, (i % 3) as i16, (i % 2) as i16, 255, 2, 2, opaque_pixels(&fmt, 2, 2, i as u32 + 1, (0, 0))));
                }
                let bytes = f.encode();
                ctx.eval(1);
                if let Loaded::Ok(file) = load(&bytes) {
                    let mut w = Want::all();
                    w.pal_probes = vec![0];
                    let o = crate::observe::observe(&file, &w);
                    ctx.outcome(hash64(&o));
                    let problem = direct_checks(&o).or_else(|| o.panics.first().map(|(l, m)| format!("{} panicked: {}", l, m)));
                    if let Some(msg) = problem {
                        ctx.violation(Violation { family: "loose-levels".into(), case: case(), sig: format!("direct:{}", sig_of(&msg)), detail: msg, bytes: Some(bytes), extra: json!({}) });
                    }
                }
            }
        });
    }

    // the corpus files through the direct checks as well
    if ctx.wants_family("corpus-direct") {
        let dir = std::path::Path::new("/repo/tests/data");
        let mut names: Vec<_> = std::fs::read_dir(dir).map(|d| d.filter_map(|e| e.ok()).map(|e| e.path()).filter(|p| p.extension().map_or(false, |x| x == "aseprite")).collect()).unwrap_or_else(|_| Vec::new());
        names.sort();
        ctx.family("corpus-direct", names.len() as u64, "the repository's own sample files: three routes, single-layer frames and tilemap images checked directly", true);
        names.par_iter().for_each(|p: &std::path::PathBuf| {
            let case = || p.file_name().unwrap().to_string_lossy().to_string();
            if !ctx.wants("corpus-direct", &case) {
                return;
            }
            let bytes = std::fs::read(p).unwrap();
            if let Loaded::Ok(file) = load(&bytes) {
                let mut w = Want::all();
                w.pal_probes = vec![0];
                let o = crate::observe::observe(&file, &w);
                ctx.eval(o.cels.len() as u64 * 21);
                ctx.outcome(hash64(&o));
                if let Some(msg) = direct_checks(&o) {
                    ctx.violation(Violation { family: "corpus-direct".into(), case: case(), sig: format!("direct:{}", sig_of(&msg)), detail: msg, bytes: None, extra: json!({}) });
                }
            }
        });
    }
    ctx.finish()
}
