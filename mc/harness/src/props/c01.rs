//! C01 — decoded structure equals what the file encodes.
use crate::common::*;
use mc_core::ase::*;
use mc_core::explore::*;
use mc_core::gen::{self, *};
use mc_core::obs::Want;
use mc_core::sem::Fmt;
use rayon::prelude::*;
use serde_json::json;
use std::sync::Arc;

pub struct Coord {
    pub name: String,
    pub n: usize,
    pub apply: Arc<dyn Fn(&mut File, usize) + Send + Sync>,
}

fn coord(name: impl Into<String>, n: usize, f: impl Fn(&mut File, usize) + Send + Sync + 'static) -> Coord {
    Coord { name: name.into(), n, apply: Arc::new(f) }
}

fn name_of(i: usize) -> Str {
    Str::new(&names()[i])
}

/// All scalar/string coordinates of D1 with their full domains.
/// `reduced` = small boundary alphabets (for the Hamming ball).
pub fn d1_coords(fmt: &Fmt, reduced: bool) -> Vec<Coord> {
    let mut v: Vec<Coord> = Vec::new();
    let w16: Vec<u16> = if reduced { vec![0, 1, 255, 256, 32768, 65535] } else { (0..=65535u16).collect() };
    let w16 = Arc::new(w16);
    let w8: Arc<Vec<u8>> = Arc::new(if reduced { A6.to_vec() } else { (0..=255u8).collect() });
    let w32: Arc<Vec<u32>> = Arc::new(if reduced { vec![0, 1, 65536, 0x7FFF_FFFF, 0x8000_0000, 0xFFFF_FFFF] } else { b32() });
    let nn = if reduced { 3 } else { names().len() };
    let name_idx: Arc<Vec<usize>> = Arc::new(if reduced { vec![0, 5, 8] } else { (0..names().len()).collect() });

    // canvas (>= 1)
    {
        let d = w16.clone();
        v.push(coord("canvas.width", d.len(), move |f, i| f.header.width = d[i].max(1)));
        let d = w16.clone();
        v.push(coord("canvas.height", d.len(), move |f, i| f.header.height = d[i].max(1)));
    }
    if let Fmt::Indexed(_) = fmt {
        let d = w8.clone();
        v.push(coord("transparent_index", d.len(), move |f, i| f.header.transparent = d[i]));
    }
    for fr in 0..3 {
        let d = w16.clone();
        v.push(coord(format!("frame[{}].duration", fr), d.len(), move |f, i| f.frames[fr].duration = d[i]));
    }
    for l in 0..4 {
        let d = w16.clone();
        v.push(coord(format!("layer[{}].flags", l), d.len(), move |f, i| layer_mut(f, l).flags = d[i]));
        let d = w8.clone();
        v.push(coord(format!("layer[{}].opacity", l), d.len(), move |f, i| layer_mut(f, l).opacity = d[i]));
        v.push(coord(format!("layer[{}].blend", l), if reduced { 3 } else { 19 }, move |f, i| layer_mut(f, l).blend = if reduced { [0u16, 9, 18][i] } else { i as u16 }));
        let ni = name_idx.clone();
        v.push(coord(format!("layer[{}].name", l), nn, move |f, i| layer_mut(f, l).name = name_of(ni[i])));
    }
    // nesting level: D1 is [0,1,1,0]; legal alternatives keeping a forest
    v.push(coord("layers.levels", 6, |f, i| {
        let alts: [[u16; 4]; 6] = [[0, 1, 1, 0], [0, 0, 0, 0], [0, 1, 2, 0], [0, 1, 2, 1], [0, 1, 1, 1], [0, 0, 1, 0]];
        for (l, lv) in alts[i].iter().enumerate() {
            // only group layers may have children: make any layer with a child a group
            layer_mut(f, l).level = *lv;
        }
        for l in 0..3 {
            let child = alts[i][l + 1] > alts[i][l];
            let ly = layer_mut(f, l);
            if child && ly.ty == 0 {
                ly.ty = 1;
            }
        }
        // a group has no cels: drop cels of layers that became groups
        let groups: Vec<u16> = (0..4).filter(|l| layer_mut(f, *l).ty == 1).map(|l| l as u16).collect();
        for fr in f.frames.iter_mut() {
            fr.chunks.retain(|c| !matches!(&c.body, Body::Cel(c) if groups.contains(&c.layer)));
        }
    }));
    for t in 0..3 {
        let d = w16.clone();
        v.push(coord(format!("tag[{}].from", t), d.len(), move |f, i| tags_mut(f, 0).tags[t].from = d[i]));
        let d = w16.clone();
        v.push(coord(format!("tag[{}].to", t), d.len(), move |f, i| tags_mut(f, 0).tags[t].to = d[i]));
        let d = w16.clone();
        v.push(coord(format!("tag[{}].repeat", t), d.len(), move |f, i| tags_mut(f, 0).tags[t].repeat = d[i]));
        v.push(coord(format!("tag[{}].dir", t), 3, move |f, i| tags_mut(f, 0).tags[t].dir = i as u8));
        let ni = name_idx.clone();
        v.push(coord(format!("tag[{}].name", t), nn, move |f, i| tags_mut(f, 0).tags[t].name = name_of(ni[i])));
    }
    // slices: slice 0 has 3 keys with 9-patch and pivot
    for s in 0..2 {
        let ni = name_idx.clone();
        v.push(coord(format!("slice[{}].name", s), nn, move |f, i| slice_mut(f, s).name = name_of(ni[i])));
        v.push(coord(format!("slice[{}].flags", s), 4, move |f, i| slice_mut(f, s).flags = i as u32));
    }
    for k in 0..3 {
        for (fi, fname) in ["frame", "x", "y", "w", "h", "cx", "cy", "cw", "ch", "px", "py"].iter().enumerate() {
            let d = w32.clone();
            v.push(coord(format!("slice[0].key[{}].{}", k, fname), d.len(), move |f, i| {
                let key = &mut slice_mut(f, 0).keys[k];
                let val = d[i];
                match fi {
                    0 => key.frame = val,
                    1 => key.x = val as i32,
                    2 => key.y = val as i32,
                    3 => key.w = val,
                    4 => key.h = val,
                    5 => key.center.0 = val as i32,
                    6 => key.center.1 = val as i32,
                    7 => key.center.2 = val,
                    8 => key.center.3 = val,
                    9 => key.pivot.0 = val as i32,
                    _ => key.pivot.1 = val as i32,
                }
            }));
        }
    }
    // palette
    if !matches!(fmt, Fmt::Indexed(_)) {
        let firsts: Arc<Vec<u32>> = Arc::new(vec![2, 0, 1, 254, 255, 256, 1000, 65536, 0x7FFF_FFFF, 0xFFFF_FFFF - 4]);
        let d = firsts.clone();
        v.push(coord("palette.first", if reduced { 4 } else { d.len() }, move |f, i| palette_mut(f, 0).first = d[i]));
    }
    for e in 0..5 {
        for c in 0..4 {
            let d = w8.clone();
            v.push(coord(format!("palette[{}].rgba[{}]", e, c), d.len(), move |f, i| palette_mut(f, 0).entries[e].rgba[c] = d[i]));
        }
    }
    {
        let ni = name_idx.clone();
        v.push(coord("palette[1].name", nn, move |f, i| palette_mut(f, 0).entries[1].name = name_of(ni[i])));
        let d: Arc<Vec<u16>> = Arc::new(if reduced { vec![0, 1, 0xFFFE, 0xFFFF] } else { b16() });
        let dd = d.clone();
        v.push(coord("palette[3].flags", d.len(), move |f, i| {
            let e = &mut palette_mut(f, 0).entries[3];
            e.flags = dd[i];
            e.name = Str::new("flagged");
        }));
    }
    // external files
    for e in 0..2 {
        let d = w32.clone();
        v.push(coord(format!("extfile[{}].id", e), d.len(), move |f, i| {
            let other = extfiles_mut(f, 0).entries[1 - e].id;
            let mut val = d[i];
            if val == other {
                val ^= 0x40; // ids are unique in a well-formed file
            }
            extfiles_mut(f, 0).entries[e].id = val;
        }));
        let ni = name_idx.clone();
        v.push(coord(format!("extfile[{}].name", e), nn, move |f, i| extfiles_mut(f, 0).entries[e].name = name_of(ni[i])));
    }
    // tilesets (tileset 0 = id 3 is referenced by layer 3)
    for t in 0..2 {
        let d = w32.clone();
        v.push(coord(format!("tileset[{}].id", t), d.len(), move |f, i| {
            let other = tileset_mut(f, 1 - t).id;
            let mut val = d[i];
            if val == other {
                val ^= 0x40;
            }
            tileset_mut(f, t).id = val;
            if t == 0 {
                layer_mut(f, 3).tileset = val;
            }
        }));
        let d = w16.clone();
        v.push(coord(format!("tileset[{}].base_index", t), d.len(), move |f, i| tileset_mut(f, t).base_index = d[i] as i16));
        let ni = name_idx.clone();
        v.push(coord(format!("tileset[{}].name", t), nn, move |f, i| tileset_mut(f, t).name = name_of(ni[i])));
        v.push(coord(format!("tileset[{}].empty_zero_flag", t), 2, move |f, i| {
            let ts = tileset_mut(f, t);
            ts.flags = (ts.flags & !4) | if i == 0 { 4 } else { 0 };
        }));
    }
    {
        let d = w32.clone();
        v.push(coord("tileset[1].ext_file", d.len(), move |f, i| tileset_mut(f, 1).ext_file = d[i]));
        let d = w32.clone();
        v.push(coord("tileset[1].ext_tileset", d.len(), move |f, i| tileset_mut(f, 1).ext_tileset = d[i]));
    }
    // cel coordinates / opacity (structure: top_left)
    for c in 0..3 {
        let d = w16.clone();
        v.push(coord(format!("cel[{}].x", c), d.len(), move |f, i| cel_mut(f, c).x = d[i] as i16));
        let d = w16.clone();
        v.push(coord(format!("cel[{}].y", c), d.len(), move |f, i| cel_mut(f, c).y = d[i] as i16));
    }
    v
}

fn structure_want() -> Want {
    // structure, plus the tilemap attributes and lookups (no images)
    Want { tilemaps: true, ..Want::structure_only() }
}

pub fn run(ctx: &Ctx) -> i32 {
    let fmts = [Fmt::Rgba, Fmt::Gray, Fmt::Indexed(4)];
    let thorough = ctx.tier == Tier::Thorough;

    // (a) field sweeps, every coordinate over its full domain, everything else at default
    for (fi, fmt) in fmts.iter().enumerate() {
        // full 16-bit domains in RGBA; the other formats run the same sweeps in the quick
        // tier on the reduced alphabets and in the thorough tier in full
        let reduced = fi != 0 && !thorough;
        let fam = format!("sweep-{}", ["rgba", "gray", "indexed"][fi]);
        if !ctx.wants_family(&fam) {
            continue;
        }
        let base = gen::d1(fmt);
        let coords = d1_coords(fmt, reduced);
        let cases: Vec<(usize, usize)> = coords.iter().enumerate().flat_map(|(ci, c)| (0..c.n).map(move |i| (ci, i))).collect();
        ctx.family(&fam, cases.len() as u64, &format!("D1 ({:?}): each of {} field coordinates swept over its whole domain ({}), all others at default; structure observation", fmt, coords.len(), if reduced { "boundary alphabets" } else { "full 8/16-bit ranges, B32 for 32-bit fields, NAMES for strings" }), true);
        let want = structure_want();
        cases.par_iter().for_each(|(ci, i)| {
            let case = || format!("{}={}", coords[*ci].name, i);
            if !ctx.wants(&fam, &case) {
                return;
            }
            let mut f = base.clone();
            (coords[*ci].apply)(&mut f, *i);
            conform(ctx, &fam, &case, &f, &want);
        });
        if fi == 0 {
            ctx.sample(json!({"family": fam, "case": format!("{}={}", coords[7].name, 12345), "meaning": "D1 with that one field set to that value; every public structure accessor compared with the model"}));
        }
    }

    // (b) Hamming ball of radius 2 (3 in thorough on a reduced coordinate set) around D1
    for (fi, fmt) in fmts.iter().enumerate() {
        let fam = format!("ball-{}", ["rgba", "gray", "indexed"][fi]);
        if !ctx.wants_family(&fam) {
            continue;
        }
        let base = gen::d1(fmt);
        let coords = d1_coords(fmt, true);
        let dims: Vec<usize> = coords.iter().map(|c| c.n).collect();
        let k = 2;
        let vecs = ball_vec(&dims, k);
        ctx.family(&fam, vecs.len() as u64, &format!("D1 ({:?}): all vectors differing from default in <= {} of {} coordinates (boundary alphabets)", fmt, k, coords.len()), true);
        let want = structure_want();
        vecs.par_iter().for_each(|v| {
            let case = || v.iter().enumerate().filter(|(_, x)| **x != 0).map(|(i, x)| format!("{}={}", coords[i].name, x)).collect::<Vec<_>>().join(",");
            if !ctx.wants(&fam, &case) {
                return;
            }
            let mut f = base.clone();
            for (i, x) in v.iter().enumerate() {
                if *x != 0 {
                    (coords[i].apply)(&mut f, *x);
                }
            }
            conform(ctx, &fam, &case, &f, &want);
        });
    }
    if thorough && ctx.wants_family("ball3-rgba") {
        let fmt = Fmt::Rgba;
        let base = gen::d1(&fmt);
        let all = d1_coords(&fmt, true);
        // reduced coordinate set: one representative of each field kind
        let keep = ["canvas.width", "canvas.height", "frame[1].duration", "layer[0].flags", "layer[1].flags", "layer[1].opacity", "layer[2].name", "layer[3].blend", "layers.levels", "tag[0].from", "tag[1].to", "tag[1].dir", "tag[2].name", "tag[2].repeat", "slice[0].flags", "slice[1].name", "slice[0].key[0].frame", "slice[0].key[1].x", "slice[0].key[2].cw", "slice[0].key[2].py", "palette.first", "palette[0].rgba[3]", "palette[1].name", "palette[3].flags", "extfile[0].id", "extfile[1].name", "tileset[0].id", "tileset[1].id", "tileset[1].base_index", "tileset[1].ext_file", "cel[0].y", "cel[1].x"];
        let coords: Vec<&Coord> = all.iter().filter(|c| keep.contains(&c.name.as_str())).collect();
        let dims: Vec<usize> = coords.iter().map(|c| c.n).collect();
        let vecs = ball_vec(&dims, 3);
        ctx.family("ball3-rgba", vecs.len() as u64, &format!("D1 RGBA: radius-3 ball over {} representative coordinates", coords.len()), true);
        let want = structure_want();
        vecs.par_iter().for_each(|v| {
            let case = || v.iter().enumerate().filter(|(_, x)| **x != 0).map(|(i, x)| format!("{}={}", coords[i].name, x)).collect::<Vec<_>>().join(",");
            if !ctx.wants("ball3-rgba", &case) {
                return;
            }
            let mut f = base.clone();
            for (i, x) in v.iter().enumerate() {
                if *x != 0 {
                    (coords[i].apply)(&mut f, *x);
                }
            }
            conform(ctx, "ball3-rgba", &case, &f, &want);
        });
    }

    counts(ctx, thorough);
    programs(ctx, thorough);
    distribute(ctx);
    lookups(ctx);
    ctx.assume("the encoder and reference interpreter (mc-core) implement the Aseprite file specification; validated by byte-exact re-encoding of the 44 corpus files and whole-API agreement on 43 of them (mc selftest)");
    ctx.finish()
}

/// (c) entity counts
fn counts(ctx: &Ctx, thorough: bool) {
    let fam = "counts";
    if !ctx.wants_family(fam) {
        return;
    }
    #[derive(Clone, Debug)]
    enum K {
        Frames(usize, u16),
        Layers(usize),
        Tags(usize),
        Slices(usize),
        Keys(usize),
        Pal(u32, usize),
        Ext(usize),
        Tilesets(usize),
    }
    let mut cases: Vec<(usize, K)> = Vec::new();
    for fi in 0..3 {
        for n in [1usize, 2, 3, 255, 256] {
            cases.push((fi, K::Frames(n, 0)));
        }
        if thorough {
            cases.push((fi, K::Frames(65535, 0)));
            cases.push((fi, K::Frames(65535, 1)));
        }
        for n in [0usize, 1, 2, 3, 4, 255, 1000] {
            cases.push((fi, K::Layers(n)));
        }
        let mut tg = vec![0usize, 1, 2, 3, 255, 256];
        if thorough {
            tg.push(65535);
        }
        for n in tg {
            cases.push((fi, K::Tags(n)));
        }
        for n in [0usize, 1, 2, 3, 1000] {
            cases.push((fi, K::Slices(n)));
            cases.push((fi, K::Keys(n)));
        }
        for first in [0u32, 1, 2, 255, 256, 0xFFFF_FFFF - 1000] {
            for len in [1usize, 2, 256, 1000] {
                cases.push((fi, K::Pal(first, len)));
            }
        }
        for n in [0usize, 1, 2, 3, 1000] {
            cases.push((fi, K::Ext(n)));
        }
        for n in [0usize, 1, 2, 3, 64] {
            cases.push((fi, K::Tilesets(n)));
        }
    }
    ctx.family(fam, cases.len() as u64, "entity counts: frames {1,2,3,255,256,(65535)}, layers {0..4,255,1000}, tags {0..3,255,256,(65535)}, slices/keys {0..3,1000}, palette (first,len) grid, external files {0..3,1000}, tilesets {0..3,64}; 3 pixel formats", true);
    let fmts = [Fmt::Rgba, Fmt::Gray, Fmt::Indexed(0)];
    cases.par_iter().for_each(|(fi, k)| {
        let case = || format!("fmt{}:{:?}", fi, k);
        if !ctx.wants(fam, &case) {
            return;
        }
        let fmt = &fmts[*fi];
        let mut f = gen::file(3, 2, fmt, &[100]);
        match k {
            K::Frames(n, off) => {
                f.frames = (0..*n).map(|i| Frame::new((i as u32 + *off as u32) as u16)).collect();
                f.frames[0].push(Body::Layer(Layer::image("l")));
            }
            K::Layers(n) => {
                for i in 0..*n {
                    let mut l = Layer::image(&format!("layer {}", i));
                    l.opacity = (i % 256) as u8;
                    l.flags = (i % 128) as u16;
                    f.frames[0].push(Body::Layer(l));
                }
            }
            K::Tags(n) => {
                f.frames[0].push(Body::Layer(Layer::image("l")));
                f.frames[0].push(tags((0..*n).map(|i| Tag { repeat: (i % 7) as u16, ..Tag::new(&format!("t{}", i % 300), i as u16, (i / 2) as u16, (i % 3) as u8) }).collect()));
            }
            K::Slices(n) => {
                for i in 0..*n {
                    f.frames[0].push(slice(&format!("s{}", i), (i % 4) as u32, vec![key(i as u32, i as i32, -(i as i32), 1 + i as u32, 2)]));
                }
            }
            K::Keys(n) => {
                f.frames[0].push(slice("s", 3, (0..*n).map(|i| { let mut k = key(i as u32, i as i32, -(i as i32), i as u32 * 3, 7); k.center = (i as i32, 1, 2, i as u32); k.pivot = (-1, i as i32); k }).collect()));
            }
            K::Pal(first, len) => {
                f.frames[0].push(new_palette(*first, pal_entries(*len, 7)));
            }
            K::Ext(n) => {
                f.frames[0].push(ext_files((0..*n).map(|i| (i as u32 * 3 + 1, "x.ase")).collect()));
            }
            K::Tilesets(n) => {
                if let Fmt::Indexed(_) = fmt {
                    f.frames[0].push(new_palette(0, pal_entries(8, 1)));
                }
                for i in 0..*n {
                    f.frames[0].push(Body::Tileset(tileset(i as u32 * 5 + 2, 2, 2, 1, tile_pixels(fmt, 2, 2, 1, i as u32, (0, 7)), &format!("ts{}", i))));
                }
            }
        }
        let mut w = Want::structure_only();
        w.tileset_images = true;
        conform(ctx, fam, &case, &f, &w);
    });
    ctx.sample(json!({"family": fam, "case": "fmt0:Tags(256)", "meaning": "one tags chunk with 256 tags; num_tags, tag(i), get_tag, tag_by_name compared"}));
}

/// (d) every permutation of the order-insensitive chunk groups of frame 0
fn programs(ctx: &Ctx, thorough: bool) {
    let fam = "programs";
    if !ctx.wants_family(fam) {
        return;
    }
    let sprites: Vec<(&str, File)> = vec![("d1", gen::d1(&Fmt::Rgba)), ("b1", gen::b1()), ("d1i", gen::d1(&Fmt::Indexed(4)))];
    let nsprites = if thorough { 3 } else { 1 };
    let mut total = 0u64;
    for (sname, base) in sprites.iter().take(nsprites) {
        // split frame 0 into groups: each group = a head chunk plus the user-data /
        // ignorable chunks that follow it; all layers form one block; cels stay last.
        let chunks = &base.frames[0].chunks;
        let mut groups: Vec<Vec<Chunk>> = Vec::new();
        let mut cels: Vec<Chunk> = Vec::new();
        let mut in_cels = false;
        for c in chunks {
            let k = c.body.kind_name();
            if k == "cel" {
                in_cels = true;
            }
            if in_cels {
                cels.push(c.clone());
                continue;
            }
            let attach = matches!(k, "userdata" | "celextra") || (k == "layer" && groups.last().map_or(false, |g| g[0].body.kind_name() == "layer")) || (k == "tileset" && groups.last().map_or(false, |g| g[0].body.kind_name() == "tileset")) || (k == "slice" && groups.last().map_or(false, |g| g[0].body.kind_name() == "slice"));
            if attach && !groups.is_empty() {
                groups.last_mut().unwrap().push(c.clone());
            } else {
                groups.push(vec![c.clone()]);
            }
        }
        let n = groups.len();
        assert!(n <= 7, "{} groups", n);
        let perms = permutations(n);
        total += perms.len() as u64;
        let want = Want::all();
        perms.par_iter().for_each(|p| {
            let case = || format!("{}:{:?}", sname, p);
            if !ctx.wants(fam, &case) {
                return;
            }
            let mut f = base.clone();
            f.frames[0].chunks = p.iter().flat_map(|g| groups[*g].iter().cloned()).chain(cels.iter().cloned()).collect();
            conform(ctx, fam, &case, &f, &want);
        });
    }
    ctx.family(fam, total, "every permutation of the order-insensitive chunk groups of frame 0 (external files, profile, palette, legacy palette+record, tilesets, layer block, tags+records, slices+records), cels last; full observation", true);
    ctx.sample(json!({"family": fam, "case": "d1:[6, 5, 4, 3, 2, 1, 0]", "meaning": "frame 0 of D1 with its 7 chunk groups in reverse order"}));
}

/// (d') the frame in which an order-insensitive chunk group is stored (D1 has three frames)
fn distribute(ctx: &Ctx) {
    let fam = "distribute";
    if !ctx.wants_family(fam) {
        return;
    }
    let base = gen::d1(&Fmt::Rgba);
    // movable kinds: external files, colour profile, palette, tilesets (kept before nothing: the library resolves at the end), slices
    let kinds = ["extfiles", "profile", "palette", "slice"];
    let cases = product_vec(&[3, 3, 3, 3]);
    ctx.family(fam, cases.len() as u64, "D1 (3 frames): external-files, colour-profile, palette and slice chunks each stored in frame 0, 1 or 2 (all 81 assignments); full observation", true);
    let want = Want::all();
    cases.par_iter().for_each(|v| {
        let case = || format!("{:?}", v);
        if !ctx.wants(fam, &case) {
            return;
        }
        let mut f = base.clone();
        for (ki, k) in kinds.iter().enumerate() {
            if v[ki] == 0 {
                continue;
            }
            let (mut moved, mut kept) = (Vec::new(), Vec::new());
            for c in f.frames[0].chunks.drain(..) {
                if c.body.kind_name() == *k {
                    moved.push(c);
                } else {
                    kept.push(c);
                }
            }
            f.frames[0].chunks = kept;
            // put them in front of the target frame's cels
            let target = &mut f.frames[v[ki]].chunks;
            for (n, c) in moved.into_iter().enumerate() {
                target.insert(n, c);
            }
        }
        conform(ctx, fam, &case, &f, &want);
    });
}

/// (e) lookups by name with duplicates at every pair of positions, absent names
fn lookups(ctx: &Ctx) {
    let fam = "lookups";
    if !ctx.wants_family(fam) {
        return;
    }
    let mut cases = Vec::new();
    // names over {A,B} for 4 layers and 4 tags: all 16 x 16 assignments
    for ln in 0..16u32 {
        for tn in 0..16u32 {
            cases.push((ln, tn));
        }
    }
    ctx.family(fam, cases.len() as u64, "4 layers x 4 tags, every assignment of the names {A,B} to each (duplicates at every subset of positions); layer_by_name/tag_by_name for A, B, absent and empty names must give the lowest index", true);
    cases.par_iter().for_each(|(ln, tn)| {
        let case = || format!("layers={:04b},tags={:04b}", ln, tn);
        if !ctx.wants(fam, &case) {
            return;
        }
        let mut f = gen::file(2, 2, &Fmt::Rgba, &[10]);
        for i in 0..4 {
            f.frames[0].push(Body::Layer(Layer::image(if ln >> i & 1 == 0 { "A" } else { "B" })));
        }
        f.frames[0].push(tags((0..4).map(|i| Tag::new(if tn >> i & 1 == 0 { "A" } else { "B" }, i, i, 0)).collect()));
        let mut w = Want::structure_only();
        w.pal_probes = vec![0];
        w.name_probes = vec!["A".into(), "B".into(), "".into(), "a".into(), "AB".into()];
        w.id_probes = vec![0, 1, 2, 3, 4, 5, u32::MAX];
        conform(ctx, fam, &case, &f, &w);
    });
    ctx.sample(json!({"family": fam, "case": "layers=0110,tags=1001"}));
}
