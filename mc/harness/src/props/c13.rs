//! C13 — truncated files are rejected, never loaded as a smaller sprite.
use crate::common::*;
use crate::props::c11::expect_err;
use mc_core::ase::*;
use mc_core::explore::*;
use mc_core::gen::{self, *};
use mc_core::sem::Fmt;
use rayon::prelude::*;
use serde_json::json;

/// cuts of the large `sized-*` files: within 24 bytes of a chunk boundary, of a 64 KiB multiple, every
/// 4093rd offset, and every offset of the last 400 bytes (the two small last frames)
fn sparse_cut(k: usize, end: usize, spans: &[(usize, usize)]) -> bool {
    k % 4093 == 0 || k % 65536 < 24 || k % 65536 >= 65512 || k + 400 >= end || spans.iter().any(|(a, b)| k.abs_diff(*a) < 24 || k.abs_diff(*b) < 24)
}

/// one small file per chunk kind, with that chunk as the last chunk of the last frame
fn last_chunk_files() -> Vec<(String, File)> {
    let fmt = Fmt::Rgba;
    let mut out = Vec::new();
    let bodies: Vec<(&str, Body)> = vec![
        ("layer", Body::Layer(Layer::image("last"))),
        ("tilemap-layer", Body::Layer(Layer::tilemap("last", 0))),
        ("raw-cel", raw_cel(0, 0, 0, 255, 2, 1, pixels(&fmt, 2, 1, 1, (0, 0)))),
        ("zlib-cel", zcel(0, 0, 0, 255, 2, 2, pixels(&fmt, 2, 2, 1, (0, 0)), 6)),
        ("linked-cel", link_cel(0, 0, 0, 255, 0)),
        ("tilemap-cel", tm_cel(1, 0, 0, 255, 1, 1, vec![1])),
        ("cel-extra", cel_extra()),
        ("profile", srgb_profile()),
        ("extfiles", ext_files(vec![(1, "a"), (2, "bb")])),
        ("mask", mask()),
        ("path", Body::Path),
        ("tags", tags(vec![Tag::new("a", 0, 1, 0), Tag::new("b", 1, 1, 2)])),
        ("palette", new_palette(0, vec![pal_entry([1, 2, 3, 4], Some("n")), pal_entry([5, 6, 7, 8], None)])),
        ("userdata", Body::UserData(UserData::both("text", [1, 2, 3, 4]))),
        ("slice", slice("s", 3, vec![key(0, 1, 2, 3, 4), key(1, 5, 6, 7, 8)])),
        ("tileset", Body::Tileset(tileset(5, 2, 2, 1, tile_pixels(&fmt, 2, 2, 1, 1, (0, 0)), "t"))),
        ("oldpal04", Body::OldPalette04(old_palette(vec![(0, vec![[1, 2, 3]]), (2, vec![[4, 5, 6], [7, 8, 9]])]))),
        ("oldpal11", Body::OldPalette11(old_palette(vec![(1, vec![[1, 2, 3], [63, 0, 9]])]))),
    ];
    for (name, b) in bodies {
        let mut f = gen::file(2, 2, &fmt, &[10, 20]);
        f.frames[0].push(Body::Tileset(tileset(0, 2, 1, 1, tile_pixels(&fmt, 2, 1, 1, 1, (0, 0)), "t0")));
        f.frames[0].push(Body::Layer(Layer::image("l0")));
        f.frames[0].push(Body::Layer(Layer::tilemap("l1", 0)));
        f.frames[0].push(raw_cel(0, 0, 0, 255, 1, 1, vec![1, 2, 3, 4]));
        if name == "linked-cel" || name == "tilemap-cel" || name == "userdata" || name.ends_with("cel") || name == "cel-extra" {
            f.frames[1].push(b);
        } else {
            f.frames[1].push(b);
        }
        out.push((format!("last-{}", name), f.clone()));
        // the same chunk followed by one more cel chunk in the last frame (what comes after it must be read too)
        let mut g = f;
        g.frames[1].push(raw_cel(0, 1, 1, 255, 1, 1, vec![9, 8, 7, 255]));
        out.push((format!("then-cel-{}", name), g));
    }
    out
}


/// files whose last chunk is large (>= 4 KiB, and one > 64 KiB) while an earlier frame holds a
/// chunk of the same kind, size and (where legal) content: what a buffer carried over from an
/// earlier frame would still contain
fn large_last_files() -> Vec<(String, File)> {
    let fmt = Fmt::Rgba;
    let mut out = Vec::new();
    let (w, h) = (40u16, 40u16);
    let px = noise(w as usize * h as usize * 4, 7);
    let ids: Vec<u32> = noise(2000, 9).iter().map(|b| (*b % 2) as u32).collect();
    let text = "x".repeat(5000);
    let kinds: Vec<(&str, Box<dyn Fn(u32) -> Body>)> = vec![
        ("raw-cel", Box::new({ let px = px.clone(); move |_| raw_cel(0, 0, 0, 255, w, h, px.clone()) })),
        ("zlib-cel", Box::new({ let px = px.clone(); move |_| zcel(0, 0, 0, 255, w, h, px.clone(), 6) })),
        ("zlib0-cel", Box::new({ let px = px.clone(); move |_| zcel(0, 0, 0, 255, w, h, px.clone(), 0) })),
        ("tilemap-cel", Box::new({ let ids = ids.clone(); move |_| {
            let mut c = tm_cel(1, 0, 0, 255, 50, 40, ids.clone());
            if let Body::Cel(cc) = &mut c { if let CelBody::Tilemap { z, .. } = &mut cc.body { *z = Zlib::Level(0); } }
            c
        } })),
        ("userdata", Box::new({ let t = text.clone(); move |_| Body::UserData(UserData::text(&t)) })),
        ("palette", Box::new(|_| new_palette(0, pal_entries(1200, 3)))),
        ("tileset", Box::new(|k| Body::Tileset({ let mut t = tileset(10 + k, 20, 8, 8, noise(20 * 64 * 4, 11), "ts"); t.z = Zlib::Level(0); t }))),
        ("slice", Box::new(|k| slice(&format!("s{}", k), 0, (0..300).map(|i| key(i, 1, 2, 3, 4)).collect()))),
        ("tags", Box::new(|_| tags((0..250).map(|i| Tag::new("tag-name", i, i, 0)).collect()))),
        ("big-raw-cel", Box::new(|_| raw_cel(0, 0, 0, 255, 160, 128, noise(160 * 128 * 4, 13)))),
    ];
    for (name, mk) in kinds {
        for nframes in [2usize, 3] {
            let d: Vec<u16> = (0..nframes).map(|i| 10 + i as u16).collect();
            let mut f = gen::file(4, 4, &fmt, &d);
            f.frames[0].push(Body::Tileset(tileset(0, 2, 1, 1, tile_pixels(&fmt, 2, 1, 1, 1, (0, 0)), "t0")));
            f.frames[0].push(Body::Layer(Layer::image("l0")));
            f.frames[0].push(Body::Layer(Layer::tilemap("l1", 0)));
            if name == "tags" {
                // tags refer to frames: one tags chunk only, preceded by a large user-data text in frame 0
                f.frames[0].push(Body::UserData(UserData::text(&"y".repeat(12000))));
                f.header.frames = None;
                for _ in 0..250 {
                    f.frames.push(Frame::new(1));
                }
                let last = f.frames.len() - 1;
                f.frames.swap(nframes - 1, last);
                f.frames[last].push(mk(0));
                out.push((format!("large-last-{}-{}f", name, nframes), f));
                continue;
            }
            for k in 0..nframes {
                if name == "userdata" {
                    f.frames[k].push(raw_cel(0, 0, 0, 255, 1, 1, vec![1, 2, 3, 4]));
                }
                f.frames[k].push(mk(k as u32));
            }
            out.push((format!("large-last-{}-{}f", name, nframes), f));
        }
    }
    out
}


/// 3-frame files of an exact total size around 64 KiB and 1 / 2 MiB (+ the 128-byte header, + one or
/// more 16-byte frame headers): the first frame holds one large raw cel, padded with trailing chunk
/// bytes to reach the size; the last two frames are small
fn sized_files() -> Vec<(String, File)> {
    let fmt = Fmt::Rgba;
    let mut out = Vec::new();
    for target in [65_536usize, 65_536 + 128, 1 << 20, (1 << 20) + 128, (1 << 20) + 128 + 16, (1 << 20) + 128 + 32, (1 << 20) + 128 + 48, (1 << 20) + 128 + 64, (2 << 20) + 128 + 16, (2 << 20) + 128 + 32] {
        let mut f = gen::file(8, 8, &fmt, &[10, 20, 30]);
        f.frames[0].push(Body::Layer(Layer::image("l0")));
        f.frames[0].push(Body::Layer(Layer::image("l1")));
        let side = if target < 200_000 { 100u16 } else if target < (3 << 19) { 500 } else { 720 };
        f.frames[0].push(raw_cel(0, 0, 0, 255, side, side, noise(side as usize * side as usize * 4, 3)));
        f.frames[1].push(raw_cel(1, 1, 1, 255, 2, 2, pixels(&fmt, 2, 2, 5, (0, 0))));
        f.frames[2].push(raw_cel(0, 2, 2, 255, 2, 2, pixels(&fmt, 2, 2, 6, (0, 0))));
        f.frames[2].push(raw_cel(1, 3, 3, 255, 1, 1, pixels(&fmt, 1, 1, 7, (0, 0))));
        let len = f.encode().len();
        if len > target {
            continue;
        }
        // pad the big cel chunk
        let last = f.frames[0].chunks.len() - 1;
        f.frames[0].chunks[last].trailing = vec![0xAB; target - len];
        debug_assert_eq!(f.encode().len(), target);
        out.push((format!("sized-{}", target), f));
    }
    out
}

pub fn run(ctx: &Ctx) -> i32 {
    let thorough = ctx.tier == Tier::Thorough;
    // (name, bytes, end of last frame, chunk spans (start,end))
    let mut files: Vec<(String, Vec<u8>, usize, Vec<(usize, usize)>)> = Vec::new();
    let mut add = |name: String, f: &File| {
        let e = f.encode_full(false);
        let spans = e.chunk_spans.iter().map(|s| (s.2, s.3)).collect();
        files.push((name, e.bytes, e.end_of_last_frame, spans));
    };
    for (n, f) in gen::bases() {
        add(n.to_string(), &f);
    }
    add("d1-rgba".into(), &gen::d1(&Fmt::Rgba));
    add("d1-gray".into(), &gen::d1(&Fmt::Gray));
    add("d1-indexed".into(), &gen::d1(&Fmt::Indexed(4)));
    for (n, f) in last_chunk_files() {
        add(n, &f);
    }
    for (n, f) in large_last_files() {
        add(n, &f);
    }
    for (n, f) in sized_files() {
        add(n, &f);
    }
    // frame header fields at their extremes: duration 0 / 65535 in every frame, in the last frame only
    for (bn, base) in [("b1", gen::b1()), ("b2", gen::b2()), ("d1", gen::d1(&Fmt::Rgba))] {
        for (tag, dur, last_only) in [("zero", 0u16, false), ("zero-last", 0, true), ("max", 65535, false), ("max-last", 65535, true)] {
            let mut f = base.clone();
            let n = f.frames.len();
            for (i, fr) in f.frames.iter_mut().enumerate() {
                if !last_only || i + 1 == n {
                    fr.duration = dur;
                }
            }
            add(format!("{}-duration-{}", bn, tag), &f);
        }
    }
    // a file whose chunks carry trailing bytes and whose frames use each count style
    {
        let mut f = gen::b1();
        for fr in f.frames.iter_mut() {
            for ch in fr.chunks.iter_mut() {
                ch.trailing = vec![0xEE; 3];
            }
        }
        f.frames[0].count_style = CountStyle::NewOnly;
        f.frames[1].count_style = CountStyle::OldOnly;
        f.tail = vec![1, 2, 3, 4, 5];
        add("b1-trailing".into(), &f);
    }
    // the deprecated 16-bit chunk count is stale (smaller than the 32-bit count, which per the format
    // description is the one to use whenever it is non-zero)
    for (tag, which) in [("zero", 0usize), ("one", 1), ("n-1", 2), ("all-frames-zero", 3)] {
        for (bn, base) in [("b1", gen::b1()), ("b2", gen::b2())] {
            let mut f = base;
            let last = f.frames.len() - 1;
            let n = f.frames[last].chunks.len();
            match which {
                0 => f.frames[last].old_count = Some(0),
                1 => f.frames[last].old_count = Some(1),
                2 => f.frames[last].old_count = Some(n.saturating_sub(1) as u16),
                _ => {
                    for fr in f.frames.iter_mut() {
                        fr.old_count = Some(0);
                    }
                }
            }
            add(format!("{}-stale-old-count-{}", bn, tag), &f);
        }
    }
    // the header's flag word cleared / all ones (a reader might treat such files as "legacy" ones)
    for (tag, fl) in [("0", 0u32), ("ffffffff", 0xFFFF_FFFF), ("2", 2)] {
        for (bn, mut f) in [("b1", gen::b1()), ("b2", gen::b2()), ("d1i", gen::d1(&Fmt::Indexed(4)))] {
            f.header.flags = fl;
            add(format!("{}-header-flags-{}", bn, tag), &f);
        }
    }
    // frames without chunks: a bare 16-byte frame header as the last thing in the file
    {
        let mut f = gen::b1();
        f.frames.push(Frame::new(77));
        add("b1-empty-last-frame".into(), &f);
        let mut f = gen::b3();
        f.frames.insert(1, Frame::new(5));
        f.frames.push(Frame::new(6));
        f.frames.push(Frame::new(7));
        add("b3-empty-frames".into(), &f);
        let f = gen::file(1, 1, &Fmt::Rgba, &[10]);
        add("one-empty-frame".into(), &f);
        for style in [CountStyle::OldOnly, CountStyle::Both] {
            let mut f = gen::file(2, 2, &Fmt::Gray, &[10, 20, 30]);
            f.frames[0].push(Body::Layer(Layer::image("l")));
            for fr in f.frames.iter_mut() {
                fr.count_style = style;
            }
            add(format!("three-frames-last-two-empty-{:?}", style), &f);
        }
    }
    // a file whose chunks are all larger than 64 KiB (quick: structured offsets only, see below)
    add("big".into(), &gen::big());
    // corpus
    let dir = std::path::Path::new("/repo/tests/data");
    let mut names: Vec<_> = std::fs::read_dir(dir).map(|d| d.filter_map(|e| e.ok()).map(|e| e.path()).filter(|p| p.extension().map_or(false, |x| x == "aseprite")).collect()).unwrap_or_else(|_| Vec::new());
    names.sort();
    let mut big_done = false;
    for p in names {
        let bytes = std::fs::read(&p).unwrap();
        let Ok(end) = walk_sizes(&bytes) else { continue };
        let name = format!("corpus-{}", p.file_stem().unwrap().to_string_lossy());
        if !matches!(load(&bytes), Loaded::Ok(_)) {
            // e.g. color-curve.aseprite uses the unsupported fixed-gamma profile: not a file the library accepts
            ctx.note(format!("{} skipped: the complete file is (legitimately) refused", name));
            continue;
        }
        let spans: Vec<(usize, usize)> = match mc_core::ase_parse::parse(&bytes) {
            Ok(f) => f.encode_full(false).chunk_spans.iter().map(|s| (s.2, s.3)).collect(),
            Err(_) => vec![],
        };
        if bytes.len() <= 8300 {
            files.push((name, bytes, end, spans));
        } else if thorough && !big_done {
            big_done = true;
            files.push((name, bytes, end, spans));
        }
    }
    // premise: the complete file loads.  A complete generated file that is refused is the business of
    // C01 / C07 (it is reported there); here it is skipped with a note.  If more than a tenth of the
    // files are refused the run says nothing and is a machinery error.
    let before = files.len();
    files.retain(|(n, b, _, _)| {
        let ok = matches!(load(b), Loaded::Ok(_));
        if !ok {
            ctx.note(format!("{} skipped: the complete file does not load on this tree (not a C13 matter)", n));
        }
        ok
    });
    if files.len() * 10 < before * 9 {
        eprintln!("machinery error: {} of {} complete files do not load", before - files.len(), before);
        return 2;
    }
    let total: usize = files.iter().map(|(n, _, e, sp)| if n.starts_with("sized-") { (0..*e).filter(|k| sparse_cut(*k, *e, sp)).count() } else if n == "big" && !thorough { (0..*e).filter(|k| k % 257 == 0 || k % 4096 < 24 || k % 4096 >= 4072 || sp.iter().any(|(a, b)| k.abs_diff(*a) < 24 || k.abs_diff(*b) < 24)).count() } else { *e }).sum();
    ctx.family("prefixes", total as u64, &format!("every strict prefix bytes[..k], 0 <= k < end of last frame, of {} files: b1..b4, D1 in three formats, one file per chunk kind with that chunk last and one with a cel chunk after it, 2- and 3-frame files whose last chunk is a 5..80 KB raw / zlib / stored-zlib / tilemap cel, user-data text, palette, tileset, slice or tags chunk that an earlier frame holds too, 3-frame files of exactly 64 KiB, 1 MiB and 2 MiB (+128, +128+16k) bytes with structured cuts, b1, b2 and D1 with the header flag word 0 / 2 / all ones, b1 with trailing bytes / both count styles / a tail, b1 and b2 with a stale (smaller) deprecated 16-bit chunk count beside the 32-bit one, and the corpus files up to 8 KB, plus `big` (every chunk > 64 KiB; quick: cuts near chunk / 4 KiB boundaries and every 257th offset, thorough: every offset){}", files.len(), if thorough { " plus one 525 KB corpus file at every offset" } else { "" }), true);
    for (name, bytes, end, spans) in &files {
        // `big` (400 KB) in the quick tier: every cut within 24 bytes of a chunk boundary, of a
        // 4 KiB / 64 KiB multiple, and every 257th offset; all offsets in the thorough tier
        let cuts: Vec<usize> = if name.starts_with("sized-") {
            (0..*end).filter(|k| sparse_cut(*k, *end, spans)).collect()
        } else if name == "big" && !thorough {
            (0..*end).filter(|k| k % 257 == 0 || k % 4096 < 24 || k % 4096 >= 4072 || spans.iter().any(|(a, b)| k.abs_diff(*a) < 24 || k.abs_diff(*b) < 24)).collect()
        } else {
            (0..*end).collect()
        };
        cuts.into_par_iter().for_each(|k| {
            let case = || format!("{}[..{}]", name, k);
            expect_err(ctx, "prefixes", &case, &bytes[..k], "the input is a strict prefix of a valid file ending before the end of its last frame");
            // coverage: which structural region the cut falls in (file header, a frame header, or the n-th chunk)
            let region = if k < 128 { 0 } else { spans.iter().position(|(a, b)| k >= *a && k < *b).map(|i| i + 2).unwrap_or(1) };
            ctx.outcome(hash64(&(name, region)));
        });
    }
    ctx.note("distinct_nontrivial for this property counts distinct (file, structural region of the cut) pairs plus error variants: region = file header, frame header, or the n-th chunk");
    ctx.sample(json!({"family": "prefixes", "case": "b1[..412]", "meaning": "the first 412 bytes of base file b1 (869 bytes): load must return an error"}));
    ctx.finish()
}
