//! C16 — a loaded sprite is an immutable, thread-safe value; results are deterministic.
//! (a) compile-time Send/Sync assertions, (b) all call histories up to a depth,
//! (c) all thread schedules of small harnesses (shuttle DFS), (d) a free-running
//! supplement (labelled sampling), (e) per-case digests across build profiles.
use crate::common::*;
use crate::observe;
use crate::props::faults;
use crate::worker::{self, Pool, TaskResult};
use asefile::AsepriteFile;
use mc_core::ase::*;
use mc_core::explore::*;
use mc_core::gen::{self, *};
use mc_core::obs::Want;
use mc_core::sem::Fmt;
use rayon::prelude::*;
use serde_json::json;
use std::collections::HashMap;
use std::sync::atomic::{AtomicU64, Ordering::Relaxed};
use std::sync::{Arc, Mutex};

pub use super::c16_subject::{h_img, panics, subject, Call, CALLS};

/// Second subject: 2 frames x 300 layers (pattern 2 has cels at (0,256), (0,0), (1,1), (1,257) ...).
/// Calls address cels whose coordinates differ only beyond bit 7, or only in which coordinate
/// carries the high bits.
pub const WIDE_CALLS: [Call; 10] = [
    ("cel(0,0).image", |f| h_img(f.cel(0, 0).image())),
    ("cel(0,256).image", |f| h_img(f.cel(0, 256).image())),
    ("cel(1,1).image", |f| h_img(f.cel(1, 1).image())),
    ("cel(1,257).image", |f| h_img(f.cel(1, 257).image())),
    ("frame(1).layer(0).image", |f| h_img(f.frame(1).layer(0).image())),
    ("layer(97).frame(0).image", |f| h_img(f.layer(97).frame(0).image())),
    ("frame(0).image", |f| h_img(f.frame(0).image())),
    ("frame(1).image", |f| h_img(f.frame(1).image())),
    ("cel(0,256) attrs", |f| {
        let c = f.cel(0, 256);
        hash64(&(c.is_empty(), c.top_left(), c.user_data().map(|u| u.text.clone())))
    }),
    ("layer(299) attrs", |f| {
        let l = f.layer(299);
        hash64(&(l.name().to_string(), l.opacity(), l.is_visible()))
    }),
];

fn wide_histories(ctx: &Ctx, thorough: bool) {
    let depth = if thorough { 4 } else { 3 };
    let fam = format!("wide-histories-depth{}", depth);
    if !ctx.wants_family(&fam) {
        return;
    }
    let bytes = gen::wide(2, 300, 2).encode();
    let fresh = || match load(&bytes) {
        Loaded::Ok(f) => f,
        _ => {
            eprintln!("machinery error: C16 wide subject does not load");
            std::process::exit(2);
        }
    };
    let base: Vec<u64> = WIDE_CALLS.iter().map(|(_, c)| c(&fresh())).collect();
    let n = WIDE_CALLS.len();
    let mut hist: Vec<Vec<usize>> = vec![vec![]];
    let mut frontier: Vec<Vec<usize>> = vec![vec![]];
    for _ in 0..depth {
        let mut next = Vec::new();
        for h in &frontier {
            for c in 0..n {
                let mut h2 = h.clone();
                h2.push(c);
                next.push(h2);
            }
        }
        hist.extend(next.iter().cloned());
        frontier = next;
    }
    ctx.family(&fam, hist.len() as u64, &format!("every call sequence with repetition of length <= {} over {} calls on a 2-frame x 300-layer sprite whose cels sit at coordinates that differ only beyond bit 7 ((0,0) vs (0,256), (1,1) vs (1,257), (0,256) vs (1,0)); each call compared with a freshly loaded sprite", depth, n), true);
    hist.par_iter().for_each(|h| {
        let case = || format!("{:?}", h.iter().map(|i| WIDE_CALLS[*i].0).collect::<Vec<_>>());
        if !ctx.wants(&fam, &case) {
            return;
        }
        let f = fresh();
        let mut p = Vec::new();
        let r = observe::guarded(&mut p, || "history".into(), || {
            for (k, i) in h.iter().enumerate() {
                if (WIDE_CALLS[*i].1)(&f) != base[*i] {
                    return Some(format!("call #{} ({}) returned a different result than on a fresh sprite", k, WIDE_CALLS[*i].0));
                }
            }
            None
        });
        ctx.eval(h.len() as u64);
        ctx.outcome(hash64(&(h.len(), h.first())));
        match r {
            Some(None) => {}
            Some(Some(msg)) => ctx.violation(Violation { family: fam.clone(), case: case(), sig: "history-dependent".into(), detail: msg, bytes: None, extra: json!({}) }),
            None => ctx.violation(Violation { family: fam.clone(), case: case(), sig: format!("panic:{}", sig_of(&p[0].1)), detail: p[0].1.clone(), bytes: None, extra: json!({}) }),
        }
    });
}


/// indexed sprite whose palette runs to index 299, entry k+256 different from entry k, pixels 0..43
pub fn long_palette_sprite() -> File {
    let fmt = Fmt::Indexed(0);
    let mut f = gen::file(11, 4, &fmt, &[10]);
    f.frames[0].push(new_palette(0, (0..300u32).map(|i| pal_entry([(i * 7) as u8, (i / 2) as u8 ^ 0x5a, (i >> 8) as u8 * 200 + 9, 255], None)).collect()));
    f.frames[0].push(Body::Tileset(tileset(1, 3, 2, 2, (0..12u8).map(|i| i + 20).collect(), "ts")));
    f.frames[0].push(Body::Layer(Layer::image("l")));
    f.frames[0].push(Body::Layer(Layer::tilemap("m", 1)));
    f.frames[0].push(raw_cel(0, 0, 0, 255, 11, 4, (0..44u8).collect()));
    f.frames[0].push(tm_cel(1, 0, 0, 255, 2, 1, vec![1, 2]));
    f
}

fn sendsync(ctx: &Ctx) {
    if !ctx.wants_family("sendsync") {
        return;
    }
    ctx.family("sendsync", 1, "compile-time: AsepriteFile and all 19 public handle/value types are Send + Sync (crate mc-sendsync builds against /repo's current tree)", true);
    let out = std::process::Command::new("cargo").args(["build", "--offline", "--profile", "checked", "-p", "mc-sendsync"]).current_dir(crate::root().join("mc")).output();
    ctx.eval(20);
    match out {
        Ok(o) if o.status.success() => ctx.outcome(hash64(&"sendsync-ok")),
        Ok(o) => {
            let err = String::from_utf8_lossy(&o.stderr).to_string();
            // a failure to compile while the harness itself compiled is the verdict
            ctx.violation(Violation { family: "sendsync".into(), case: "mc-sendsync".into(), sig: "not-send-sync".into(), detail: format!("the Send/Sync assertion crate does not compile:\n{}", err.lines().filter(|l| l.contains("error") || l.contains("cannot be")).take(12).collect::<Vec<_>>().join("\n")), bytes: None, extra: json!({}) });
        }
        Err(e) => {
            eprintln!("machinery error: cannot run cargo: {}", e);
            std::process::exit(2);
        }
    }
}

fn histories(ctx: &Ctx, thorough: bool) {
    let bytes = subject().encode();
    let fresh = || match load(&bytes) {
        Loaded::Ok(f) => f,
        _ => {
            eprintln!("machinery error: C16 subject sprite does not load");
            std::process::exit(2);
        }
    };
    let want = {
        let mut w = Want::all();
        w.pal_probes = (0..10).collect();
        w.name_probes = vec!["top".into(), "a".into(), "".into()];
        w.id_probes = vec![0, 1, 2, 3];
        w
    };
    // baselines: each call on its own freshly loaded sprite
    let base: Vec<u64> = CALLS.iter().map(|(_, c)| c(&fresh())).collect();
    let base_obs = hash64(&observe::observe(&fresh(), &want));
    // quick: length <= 4 over all calls; thorough: length <= 5 over all calls and length 6 over the calls that return normally
    let depth = if thorough { 6 } else { 4 };
    let full_depth = if thorough { 5 } else { 4 };
    let fam = format!("histories-depth{}", depth);
    if ctx.wants_family(&fam) {
        let n = CALLS.len();
        let nn = (0..n).filter(|i| !panics(*i)).count();
        let total: u64 = (0..=full_depth as u32).map(|d| (n as u64).pow(d)).sum::<u64>() + if depth > full_depth { (nn as u64).pow(depth as u32) } else { 0 };
        ctx.family(&fam, total, &format!("every sequence with repetition of length <= {} over {} representative accessor calls ({} of them pass out-of-range arguments, panic and are caught){} on one sprite instance (histories are not merged); every call compared with the same call on a freshly loaded sprite, and a full observation at the end with the fresh one", full_depth, n, n - nn, if depth > full_depth { format!(", and every sequence of length {} over the {} calls that return normally", depth, nn) } else { String::new() }), true);
        // parallel over the first two calls
        let seeds: Vec<Vec<usize>> = (0..n).flat_map(|a| (0..n).map(move |b| vec![a, b])).collect();
        let shorter: Vec<Vec<usize>> = std::iter::once(vec![]).chain((0..n).map(|a| vec![a])).collect();
        let run_one = |h: &[usize]| {
            let case = || format!("{:?}", h.iter().map(|i| CALLS[*i].0).collect::<Vec<_>>());
            if !ctx.wants(&fam, &case) {
                return;
            }
            let f = fresh();
            let mut p = Vec::new();
            let r = observe::guarded(&mut p, || "history".into(), || {
                for (k, i) in h.iter().enumerate() {
                    let d = (CALLS[*i].1)(&f);
                    if d != base[*i] {
                        return Some(format!("call #{} ({}) returned a different result than on a fresh sprite", k, CALLS[*i].0));
                    }
                }
                if hash64(&observe::observe(&f, &want)) != base_obs {
                    return Some("full observation after the history differs from a fresh sprite's".into());
                }
                None
            });
            ctx.eval(h.len() as u64 + 60);
            ctx.outcome(hash64(&h.len()));
            match r {
                Some(None) => {}
                Some(Some(msg)) => ctx.violation(Violation { family: fam.clone(), case: case(), sig: "history-dependent".into(), detail: msg, bytes: Some(bytes.clone()), extra: json!({}) }),
                None => ctx.violation(Violation { family: fam.clone(), case: case(), sig: format!("panic:{}", sig_of(&p[0].1)), detail: p[0].1.clone(), bytes: Some(bytes.clone()), extra: json!({}) }),
            }
        };
        for h in &shorter {
            run_one(h);
        }
        seeds.par_iter().for_each(|s| {
            // DFS below the seed
            let mut stack: Vec<Vec<usize>> = vec![s.clone()];
            while let Some(h) = stack.pop() {
                run_one(&h);
                if h.len() < full_depth {
                    for c in 0..n {
                        let mut h2 = h.clone();
                        h2.push(c);
                        stack.push(h2);
                    }
                } else if h.len() < depth && h.iter().all(|i| !panics(*i)) {
                    for c in (0..n).filter(|c| !panics(*c)) {
                        let mut h2 = h.clone();
                        h2.push(c);
                        stack.push(h2);
                    }
                }
            }
        });
        ctx.sample(json!({"family": fam, "history": ["frame(0).image", "tilemap(2,1).tile(*)", "frame(0).image", "debug fmt"], "meaning": "the four calls in this order on one sprite; each result must equal the result on a freshly loaded sprite"}));
    }
    if thorough && ctx.wants_family("permutations-8") {
        let perms = permutations(8);
        ctx.family("permutations-8", perms.len() as u64, "all 8! orders of 8 fixed calls on one sprite instance", true);
        perms.par_iter().for_each(|p| {
            let f = fresh();
            for i in p {
                if (CALLS[*i].1)(&f) != base[*i] {
                    ctx.violation(Violation { family: "permutations-8".into(), case: format!("{:?}", p), sig: "history-dependent".into(), detail: format!("{} differs", CALLS[*i].0), bytes: Some(bytes.clone()), extra: json!({}) });
                }
            }
            ctx.eval(8);
        });
    }
    // loading the same bytes twice gives equal observations
    if ctx.wants_family("load-twice") {
        let mut files: Vec<(String, Vec<u8>)> = gen::bases().into_iter().map(|(n, f)| (n.to_string(), f.encode())).collect();
        files.push(("d1".into(), gen::d1(&Fmt::Rgba).encode()));
        files.push(("d1i".into(), gen::d1(&Fmt::Indexed(4)).encode()));
        files.push(("subject".into(), bytes.clone()));
        for k in 0..4 {
            files.push((format!("long-palette#{}", k), long_palette_sprite().encode()));
        }
        let dims: Vec<usize> = (0..2).flat_map(|_| crate::props::c02::LAYER_DIMS.iter().copied()).collect();
        for v in ball_vec(&dims, 2) {
            files.push((format!("stack{:?}", v), crate::props::c02::stack_sprite(&v).encode()));
        }
        if let Ok(rd) = std::fs::read_dir("/repo/tests/data") {
            let mut ps: Vec<_> = rd.filter_map(|e| e.ok()).map(|e| e.path()).filter(|p| p.extension().map_or(false, |x| x == "aseprite")).collect();
            ps.sort();
            for p in ps {
                if let Ok(b) = std::fs::read(&p) {
                    if b.len() < 10_000 {
                        files.push((p.file_name().unwrap().to_string_lossy().to_string(), b));
                    }
                }
            }
        }
        ctx.family("load-twice", files.len() as u64, "bases, D1, the C02 two-layer stack ball (k=2) and the small corpus files: two independent loads of the same bytes give equal full observations (including the arbitrary-order collections after sorting)", true);
        files.par_iter().for_each(|(name, b)| {
            let case = || name.clone();
            if !ctx.wants("load-twice", &case) {
                return;
            }
            let mut w = Want::all();
            w.pal_probes = (0..300).collect();
            w.name_probes = vec!["".into()];
            w.id_probes = (0..10).collect();
            if let (Loaded::Ok(f1), Loaded::Ok(f2)) = (load(b), load(b)) {
                let (o1, o2) = (observe::observe(&f1, &w), observe::observe(&f2, &w));
                ctx.eval(2);
                ctx.outcome(hash64(&o1));
                if o1 != o2 {
                    ctx.violation(Violation { family: "load-twice".into(), case: case(), sig: "nondeterministic-load".into(), detail: mc_core::obs::first_diff(&o1, &o2), bytes: Some(b.clone()), extra: json!({}) });
                }
            }
        });
    }
}


/// state carried from one load to the next inside a process: B loaded (and fully walked)
/// after A (and after A, A') must give exactly the observation B gives in a fresh process
fn cross_load(ctx: &Ctx, thorough: bool) {
    let fam = "cross-load";
    if !ctx.wants_family(fam) {
        return;
    }
    let mut files: Vec<(String, Vec<u8>)> = gen::bases().into_iter().map(|(n, f)| (n.to_string(), f.encode())).collect();
    files.push(("d1".into(), gen::d1(&Fmt::Rgba).encode()));
    files.push(("d1i".into(), gen::d1(&Fmt::Indexed(4)).encode()));
    files.push(("subject".into(), subject().encode()));
    files.push(("wide".into(), gen::wide(2, 300, 2).encode()));
    files.push(("d1g".into(), gen::d1(&Fmt::Gray).encode()));
    files.push(("long-palette".into(), long_palette_sprite().encode()));
    // files that differ from another one in content only - same ids, counts, sizes, formats (a cache keyed
    // too coarsely confuses them)
    {
        let mut f = subject();
        for c in f.frames[0].chunks.iter_mut() {
            if let Body::Palette(p) = &mut c.body {
                for e in p.entries.iter_mut() {
                    e.rgba = [e.rgba[0] ^ 0x55, e.rgba[1] ^ 0x33, e.rgba[2] ^ 0x0f, e.rgba[3]];
                }
            }
        }
        files.push(("subject with every palette colour changed".into(), f.encode()));
        let mut f = subject();
        for c in f.frames[0].chunks.iter_mut() {
            if let Body::Tileset(t) = &mut c.body {
                t.pixels.reverse();
            }
        }
        files.push(("subject with the tileset's pixel bytes reversed".into(), f.encode()));
        for (nm, fmt) in [("d1", Fmt::Rgba), ("d1g", Fmt::Gray)] {
            let mut f = gen::d1(&fmt);
            for fr in f.frames.iter_mut() {
                for c in fr.chunks.iter_mut() {
                    match &mut c.body {
                        Body::Cel(Cel { body: CelBody::Raw { data, .. } | CelBody::Compressed { data, .. }, .. }) => {
                            if !data.is_empty() {
                                data[0] ^= 0x55;
                            }
                        }
                        Body::Tileset(t) => {
                            let k = t.pixels.len() - 1;
                            t.pixels[k] ^= 0x2a;
                        }
                        _ => {}
                    }
                }
            }
            files.push((format!("{} with one byte of every cel and tileset changed", nm), f.encode()));
        }
    }
    // the same layer tree with different visible flags
    files.push(("forest [0,1,1,0] visible 1011".into(), crate::props::c09::forest_sprite(&[0, 1, 1, 0], 0b1011).encode()));
    files.push(("forest [0,1,1,0] visible 0110".into(), crate::props::c09::forest_sprite(&[0, 1, 1, 0], 0b0110).encode()));
    // files that are refused, each at a different stage (what a failed load leaves behind must not matter)
    {
        // an indexed sprite whose second cel uses an index the palette lacks
        let fmt = Fmt::Indexed(0);
        let mut f = gen::file(4, 4, &fmt, &[10]);
        f.frames[0].push(new_palette(0, pal_entries(4, 2)));
        f.frames[0].push(Body::Layer(Layer::image("a")));
        f.frames[0].push(Body::Layer(Layer::image("b")));
        f.frames[0].push(raw_cel(0, 0, 0, 255, 2, 2, vec![1, 2, 3, 1]));
        f.frames[0].push(raw_cel(1, 0, 0, 255, 2, 2, vec![1, 2, 9, 1]));
        files.push(("refused: palette index 9 of 4".into(), f.encode()));
        // a compressed cel whose stream is damaged after 40 KB of output
        let fmt = Fmt::Rgba;
        let mut f = gen::file(4, 4, &fmt, &[10]);
        f.frames[0].push(Body::Layer(Layer::image("a")));
        let px = gen::noise(128 * 128 * 4, 5);
        let mut z = zlib(&px, 6);
        let k = z.len() * 2 / 3;
        for b in z[k..k + 8].iter_mut() {
            *b ^= 0xff;
        }
        f.frames[0].push(Body::Cel(Cel::new(0, 0, 0, 255, CelBody::Compressed { w: 128, h: 128, data: vec![], z: Zlib::Verbatim(z) })));
        files.push(("refused: deflate stream damaged two thirds in (64 KB cel)".into(), f.encode()));
        // checksum-only damage: the whole payload inflates, the Adler-32 at the end is wrong
        let mut f = gen::file(4, 4, &fmt, &[10]);
        f.frames[0].push(Body::Layer(Layer::image("a")));
        let mut z = zlib(&px, 6);
        let k = z.len() - 1;
        z[k] ^= 0xff;
        f.frames[0].push(Body::Cel(Cel::new(0, 0, 0, 255, CelBody::Compressed { w: 128, h: 128, data: vec![], z: Zlib::Verbatim(z) })));
        files.push(("refused or accepted: wrong Adler-32 after a complete 64 KB payload".into(), f.encode()));
        let b = gen::b2().encode();
        files.push(("refused: b2 cut in the middle".into(), b[..b.len() / 2].to_vec()));
        let mut f = gen::b1();
        f.frames[0].push(link_cel(0, 0, 0, 255, 2));
        files.push(("refused or accepted: b1 with an extra linked cel".into(), f.encode()));
    }
    let n = files.len();
    let depth = if thorough { 4 } else { 3 };
    let mut seqs: Vec<Vec<usize>> = Vec::new();
    let mut frontier: Vec<Vec<usize>> = vec![vec![]];
    for _ in 0..depth {
        let mut next = Vec::new();
        for h in &frontier {
            for c in 0..n {
                let mut h2 = h.clone();
                h2.push(c);
                next.push(h2);
            }
        }
        seqs.extend(next.iter().cloned());
        frontier = next;
    }
    let only_idx: Option<usize> = ctx.only.as_ref().and_then(|(_, c)| c.strip_prefix("idx=").and_then(|r| r.split(' ').next()).and_then(|s| s.parse().ok()));
    ctx.family(fam, seqs.len() as u64, &format!("every sequence of length <= {} of {} files (bases, D1 in three formats, the C16 subjects, four files that differ from another one only in palette colours / tileset bytes / one byte per cel, one layer tree under two visibility assignments, and five files that are refused at different stages: missing palette index, damaged deflate stream after 40 KB of output, wrong Adler-32, truncation, bad link) loaded and fully walked one after the other in one worker process; status and observation digest of every load must equal those of the same file loaded alone in a fresh process", depth, n), true);
    let pool = Pool::new("checked", 16, 120.0);
    let res: Mutex<HashMap<usize, Vec<(u32, u64, String)>>> = Mutex::new(HashMap::new());
    pool.run(
        seqs.len(),
        &|k| {
            let fs: Vec<(&[u8], bool)> = seqs[k].iter().map(|i| (files[*i].1.as_slice(), true)).collect();
            (worker::KIND_LOAD_SEQ, 0, worker::seq_task(&fs))
        },
        &|k, _b, r: TaskResult| {
            let items = worker::seq_items(&r);
            let v = if matches!(r.status, worker::Status::Ok) && items.len() == seqs[k].len() { items.into_iter().map(|x| (x.status, x.digest, x.msg)).collect() } else { vec![(99, 0, format!("{:?} {}", r.status, r.msg))] };
            res.lock().unwrap().insert(k, v);
        },
    );
    let res = res.into_inner().unwrap();
    for (k, sq) in seqs.iter().enumerate() {
        if only_idx.map_or(false, |i| i != k) {
            continue;
        }
        let case = || format!("idx={} {}", k, sq.iter().map(|i| files[*i].0.clone()).collect::<Vec<_>>().join(" ; then "));
        ctx.eval(sq.len() as u64);
        let got = &res[&k];
        ctx.outcome(hash64(&got.iter().map(|x| (x.0, x.1)).collect::<Vec<_>>()));
        if got.len() != sq.len() {
            ctx.violation(Violation { family: fam.into(), case: case(), sig: "cross-load:incomplete".into(), detail: format!("the sequence did not complete: {:?}", got), bytes: None, extra: json!({}) });
            continue;
        }
        for (pos, fi) in sq.iter().enumerate() {
            let alone = &res[fi][0];
            if (got[pos].0, got[pos].1) != (alone.0, alone.1) {
                ctx.violation(Violation {
                    family: fam.into(),
                    case: case(),
                    sig: "load-depends-on-earlier-loads".into(),
                    detail: format!("load #{} ({}): status {} digest {:016x} [{}] after the earlier loads, but status {} digest {:016x} [{}] when loaded alone in a fresh process", pos + 1, files[*fi].0, got[pos].0, got[pos].1, got[pos].2, alone.0, alone.1, alone.2),
                    bytes: Some(files[*fi].1.clone()),
                    extra: json!({}),
                });
                break;
            }
        }
    }
}


/// the same bytes through readers that deliver at most m bytes per read() call: equal observations
fn readers(ctx: &Ctx) {
    let fam = "load-through-readers";
    if !ctx.wants_family(fam) {
        return;
    }
    struct Chunked<'a> {
        data: &'a [u8],
        pos: usize,
        m: usize,
    }
    impl<'a> std::io::Read for Chunked<'a> {
        fn read(&mut self, buf: &mut [u8]) -> std::io::Result<usize> {
            let n = buf.len().min(self.m).min(self.data.len() - self.pos);
            buf[..n].copy_from_slice(&self.data[self.pos..self.pos + n]);
            self.pos += n;
            Ok(n)
        }
    }
    let files: Vec<(String, Vec<u8>)> = vec![("big".into(), gen::big().encode()), ("b1".into(), gen::b1().encode()), ("subject".into(), subject().encode()), ("long-palette".into(), long_palette_sprite().encode())];
    let ms = [1usize, 2, 7, 4093, 65535, 65536, 65537, 100_000];
    ctx.family(fam, (files.len() * ms.len()) as u64, "`big` (every chunk above 64 KiB), b1, the C16 subject and the long-palette sprite loaded from the in-memory slice and through readers that return at most m bytes per read() call, m in {1, 2, 7, 4093, 65535, 65536, 65537, 100000}: equal full observations", true);
    let cases: Vec<(usize, usize)> = (0..files.len()).flat_map(|f| (0..ms.len()).map(move |m| (f, m))).collect();
    cases.par_iter().for_each(|(fi, mi)| {
        let case = || format!("{} max_read={}", files[*fi].0, ms[*mi]);
        if !ctx.wants(fam, &case) {
            return;
        }
        let mut w = Want::all();
        w.pal_probes = (0..300).collect();
        let b = &files[*fi].1;
        let Loaded::Ok(f1) = load(b) else { return };
        let o1 = observe::observe(&f1, &w);
        let r = std::panic::catch_unwind(std::panic::AssertUnwindSafe(|| AsepriteFile::read(Chunked { data: b, pos: 0, m: ms[*mi] })));
        ctx.eval(2);
        match r {
            Ok(Ok(f2)) => {
                let o2 = observe::observe(&f2, &w);
                ctx.outcome(hash64(&o2));
                if o1 != o2 {
                    ctx.violation(Violation { family: fam.into(), case: case(), sig: "reader-dependent-load".into(), detail: mc_core::obs::first_diff(&o1, &o2), bytes: if b.len() < 300_000 { Some(b.clone()) } else { None }, extra: json!({}) });
                }
            }
            Ok(Err(e)) => ctx.violation(Violation { family: fam.into(), case: case(), sig: "reader-dependent-load:error".into(), detail: format!("loads from the slice, fails through the reader: {}", e), bytes: None, extra: json!({}) }),
            Err(_) => ctx.violation(Violation { family: fam.into(), case: case(), sig: "reader-dependent-load:panic".into(), detail: observe::take_panic(), bytes: None, extra: json!({}) }),
        }
    });
}


/// the process-wide `log` level is not an input of the loader: the same bytes under level Off and under
/// level Trace (the harness's default) give the same status and the same observation
fn log_levels(ctx: &Ctx) {
    let fam = "log-levels";
    if !ctx.wants_family(fam) {
        return;
    }
    let mut files: Vec<(String, Vec<u8>)> = gen::bases().into_iter().map(|(n, f)| (n.to_string(), f.encode())).collect();
    files.push(("subject".into(), subject().encode()));
    // chunks the library ignores, with contents a stricter reader might object to; a tags chunk in a later frame
    for (nm, body) in [
        ("cel-extra with the precise-bounds flag and a 0x0 size", Body::CelExtra(CelExtra { flags: 1, x: 0, y: 0, w: 0, h: 0, reserved: [0; 16] })),
        ("cel-extra of 10 bytes", Body::Raw { ty: 0x2006, data: vec![1; 10] }),
        ("empty cel-extra", Body::Raw { ty: 0x2006, data: vec![] }),
        ("mask chunk of 3 bytes", Body::Raw { ty: 0x2016, data: vec![9; 3] }),
        ("path chunk with a payload", Body::Raw { ty: 0x2017, data: vec![7; 40] }),
        ("unknown chunk type 0x2030", Body::Raw { ty: 0x2030, data: vec![5; 12] }),
        ("tags chunk without tags", tags(vec![])),
        ("tags chunk with an unnamed tag", tags(vec![Tag::new("", 0, 0, 0)])),
    ] {
        for fi in 0..2usize {
            let mut f = gen::b1();
            let k = fi.min(f.frames.len() - 1);
            f.frames[k].push(body.clone());
            files.push((format!("b1 + {} in frame {}", nm, k), f.encode()));
        }
    }
    ctx.family(fam, files.len() as u64 * 2, "bases, the C16 subject and b1 with ignorable / unknown / late chunks of unusual contents (cel-extra with a 0x0 precise size, short or empty cel-extra, mask, path, an unknown chunk type, tags chunks in a later frame), each loaded with the process-wide log level Off and with level Trace: equal status and equal observation", true);
    let mut w = Want::all();
    w.pal_probes = (0..20).collect();
    for (name, b) in &files {
        let case = || name.clone();
        if !ctx.wants(fam, &case) {
            continue;
        }
        let mut res = Vec::new();
        for lvl in [log::LevelFilter::Off, log::LevelFilter::Trace] {
            log::set_max_level(lvl);
            res.push(match load(b) {
                Loaded::Ok(f) => format!("ok:{:016x}", hash64(&observe::observe(&f, &w))),
                Loaded::Err(e) => format!("err:{}", err_variant(&e)),
                Loaded::Panic(m) => format!("panic:{}", sig_of(&m)),
            });
        }
        log::set_max_level(log::LevelFilter::Trace);
        ctx.eval(2);
        ctx.outcome(hash64(&res));
        if res[0] != res[1] {
            ctx.violation(Violation { family: fam.into(), case: case(), sig: "depends-on-log-level".into(), detail: format!("log level Off: {} ; log level Trace: {}", res[0], res[1]), bytes: Some(b.clone()), extra: json!({}) });
        }
    }
}

fn schedules(ctx: &Ctx, thorough: bool) {
    if !ctx.wants_family("schedules") {
        return;
    }
    let bytes = subject().encode();
    // baselines: each call on its own freshly loaded sprite (a call that panics there has no baseline
    // and is left to the histories family)
    let base: Vec<u64> = CALLS
        .iter()
        .map(|(_, c)| match load(&bytes) {
            Loaded::Ok(f) => std::panic::catch_unwind(std::panic::AssertUnwindSafe(|| c(&f))).unwrap_or(super::c16_subject::PANICKED),
            _ => std::process::exit(2),
        })
        .collect();
    let base = Arc::new(base);
    // configurations: which calls each thread performs
    let sub: Vec<usize> = vec![0, 2, 4, 5, 8, 12];
    let mut configs: Vec<Vec<Vec<usize>>> = Vec::new();
    // 2 threads x 2 calls each over a 6-call subset
    for a in &sub {
        for b in &sub {
            for c in &sub {
                for d in &sub {
                    configs.push(vec![vec![*a, *b], vec![*c, *d]]);
                }
            }
        }
    }
    // 3 threads x 1 call each over all 14
    let np: Vec<usize> = (0..CALLS.len()).filter(|i| !panics(*i)).collect();
    for &a in &np {
        for &b in &np {
            for &c in &np {
                configs.push(vec![vec![a], vec![b], vec![c]]);
            }
        }
    }
    // 3 threads x 2 calls for a few fixed mixes
    let mixes: Vec<Vec<Vec<usize>>> = vec![vec![vec![0, 1], vec![2, 3], vec![4, 5]], vec![vec![0, 0], vec![0, 0], vec![0, 0]], vec![vec![6, 7], vec![8, 9], vec![12, 13]], vec![vec![5, 4], vec![1, 0], vec![10, 11]]];
    configs.extend(mixes);
    if thorough {
        for a in &sub {
            for b in &sub {
                for c in &sub {
                    configs.push(vec![vec![*a, *b], vec![*b, *c], vec![*c, *a]]);
                }
            }
        }
    }
    let schedules = AtomicU64::new(0);
    let failures: Mutex<Vec<String>> = Mutex::new(Vec::new());
    // shuttle's DFS is itself sequential; run configurations in parallel
    configs.par_iter().for_each(|cfg| {
        let case = || format!("{:?}", cfg.iter().map(|t| t.iter().map(|i| CALLS[*i].0).collect::<Vec<_>>()).collect::<Vec<_>>());
        if !ctx.wants("schedules", &case) {
            return;
        }
        let count = Arc::new(AtomicU64::new(0));
        let bad: Arc<Mutex<Option<String>>> = Arc::new(Mutex::new(None));
        // a sprite of its own per configuration: configurations run on parallel OS threads, and sharing one
        // instance between them would let free-running threads into what is meant to be a controlled schedule
        let file = match load(&bytes) {
            Loaded::Ok(f) => Arc::new(f),
            _ => std::process::exit(2),
        };
        let (file, base, cfg2, count2, bad2) = (file.clone(), base.clone(), cfg.clone(), count.clone(), bad.clone());
        let r = std::panic::catch_unwind(std::panic::AssertUnwindSafe(|| {
            shuttle::check_dfs(
                move || {
                    count2.fetch_add(1, Relaxed);
                    let mut hs = Vec::new();
                    for (ti, calls) in cfg2.iter().enumerate() {
                        let (file, base, calls, bad3) = (file.clone(), base.clone(), calls.clone(), bad2.clone());
                        hs.push(shuttle::thread::spawn(move || {
                            for i in calls {
                                shuttle::thread::yield_now();
                                let d = (CALLS[i].1)(&file);
                                if d != base[i] {
                                    *bad3.lock().unwrap() = Some(format!("thread {}: {} returned a different result under this schedule", ti, CALLS[i].0));
                                }
                            }
                        }));
                    }
                    for h in hs {
                        h.join().unwrap();
                    }
                },
                None,
            );
        }));
        let n = count.load(Relaxed);
        schedules.fetch_add(n, Relaxed);
        ctx.eval_n(n, n * cfg.iter().map(|t| t.len() as u64).sum::<u64>());
        ctx.outcome(hash64(&(cfg.len(), n)));
        let b = bad.lock().unwrap().clone();
        if r.is_err() || b.is_some() {
            let msg = b.unwrap_or_else(|| format!("panic under shuttle: {}", observe::take_panic()));
            failures.lock().unwrap().push(msg.clone());
            ctx.violation(Violation { family: "schedules".into(), case: case(), sig: "schedule-dependent".into(), detail: msg, bytes: Some(bytes.clone()), extra: json!({}) });
        }
    });
    ctx.family("schedules", schedules.load(Relaxed), &format!("shuttle check_dfs (exhaustive, no sampling) over {} thread configurations sharing one &AsepriteFile with a yield before every call: 2 threads x 2 calls over a 6-call subset (1296), 3 threads x 1 call over all {} calls that return normally, 3 threads x 2 calls for fixed mixes{}; every call compared with the fresh-sprite baseline", configs.len(), np.len(), if thorough { " and 216 rotating mixes" } else { "" }), true);
    ctx.set_extra("schedules_explored", json!(schedules.load(Relaxed)));
    ctx.sample(json!({"family": "schedules", "configuration": [["frame(0).image", "cel(0,1).image"], ["tilemap(2,0).image", "palette"]], "meaning": "two threads, two calls each, every interleaving at call granularity"}));
}


/// (c') the same calls against the copy of the library whose synchronisation primitives are
/// shuttle's (tools/gen_sx.py + mc-sx): every lock / atomic / once / channel operation inside
/// the library is a scheduling point, and shuttle's DFS enumerates all schedules.
fn schedules_sync(ctx: &Ctx, thorough: bool) {
    let fam = "schedules-sync";
    if !ctx.wants_family(fam) {
        return;
    }
    let sx = crate::root().join("target/sx");
    let status = std::fs::read_to_string(sx.join("status")).unwrap_or_else(|_| "unavailable: not built (run through ./check)".into());
    let gen: serde_json::Value = std::fs::read_to_string(sx.join("gen.json")).ok().and_then(|t| serde_json::from_str(&t).ok()).unwrap_or(json!({}));
    ctx.set_extra("sync_instrumented_build", json!({"status": status.trim(), "rewrite": gen}));
    let bin = crate::root().join("target/checked/mc-sx");
    if status.trim() != "ok" || !bin.is_file() {
        ctx.assume(format!("schedules-sync NOT explored in this run: the shuttle-instrumented copy of the library could not be built ({}); preemption inside one call is then covered only under the source-scan assumption below", status.trim()));
        return;
    }
    let mut cmd = std::process::Command::new(&bin);
    cmd.arg(if thorough { "thorough" } else { "quick" });
    if let Some((f, c)) = &ctx.only {
        if f == fam {
            cmd.arg("--case").arg(c);
        }
    }
    let out = match cmd.stderr(std::process::Stdio::null()).output() {
        Ok(o) => o,
        Err(e) => {
            eprintln!("machinery error: cannot run {}: {}", bin.display(), e);
            std::process::exit(2);
        }
    };
    let text = String::from_utf8_lossy(&out.stdout);
    let (mut schedules, mut configs, mut capped, mut skipped, mut done) = (0u64, 0u64, 0u64, 0u64, false);
    let bytes = subject().encode();
    for l in text.lines() {
        let Ok(j) = serde_json::from_str::<serde_json::Value>(l) else { continue };
        if j.get("done").is_some() {
            done = true;
            continue;
        }
        if j.get("skipped").is_some() {
            skipped += 1;
            continue;
        }
        configs += 1;
        let n = j["schedules"].as_u64().unwrap_or(0);
        schedules += n;
        if j["capped"].as_bool().unwrap_or(false) {
            capped += 1;
        }
        ctx.eval_n(n, n * j["calls"].as_u64().unwrap_or(1));
        ctx.outcome(hash64(&(j["threads"].as_u64(), n)));
        if let Some(b) = j["bad"].as_str() {
            ctx.violation(Violation { family: fam.into(), case: j["case"].as_str().unwrap_or("").to_string(), sig: "schedule-dependent(sync)".into(), detail: b.to_string(), bytes: Some(bytes.clone()), extra: json!({"schedules_until_failure": n}) });
        }
    }
    if !done {
        eprintln!("machinery error: mc-sx did not finish (exit {:?})", out.status.code());
        std::process::exit(2);
    }
    ctx.family(fam, schedules, &format!("shuttle check_dfs over {} thread configurations against the shuttle-instrumented copy of the library ({} textual rewrites of std::sync / std::thread uses; load, baselines and threads all inside the execution): 2 threads x 1 call over all calls that return normally, 3 threads x 1 call over 7 calls, 2 threads x 2 calls over the {} rendering calls; {} configurations hit the per-configuration cap, {} skipped after 12 failing configurations", configs, gen["rewrites"].as_u64().unwrap_or(0), if thorough { 8 } else { 4 }, capped, skipped), capped == 0 && skipped == 0);
    ctx.set_extra("sync_schedules_explored", json!({"schedules": schedules, "configurations": configs, "capped": capped, "skipped": skipped}));
    if let Some(l) = gen["leftover"].as_array() {
        if !l.is_empty() {
            ctx.assume(format!("the textual rewrite left {} uses of std synchronisation under another spelling (not scheduling points): {:?}", l.len(), l));
        }
    }
}

fn free_running(ctx: &Ctx) {
    if !ctx.wants_family("free-running") {
        return;
    }
    let bytes = subject().encode();
    let Loaded::Ok(file) = load(&bytes) else { std::process::exit(2) };
    let base: Vec<u64> = CALLS
        .iter()
        .map(|(_, c)| match load(&bytes) {
            Loaded::Ok(f) => std::panic::catch_unwind(std::panic::AssertUnwindSafe(|| c(&f))).unwrap_or(super::c16_subject::PANICKED),
            _ => std::process::exit(2),
        })
        .collect();
    let bad = AtomicU64::new(0);
    let iters = 300u64;
    std::thread::scope(|s| {
        for t in 0..16u64 {
            let (file, base, bad) = (&file, &base, &bad);
            s.spawn(move || {
                for k in 0..iters {
                    let i = ((k * 7 + t * 3) % CALLS.len() as u64) as usize;
                    if panics(i) {
                        continue;
                    }
                    let r = std::panic::catch_unwind(std::panic::AssertUnwindSafe(|| (CALLS[i].1)(file)));
                    if r.ok() != Some(base[i]) {
                        bad.fetch_add(1, Relaxed);
                    }
                }
            });
        }
    });
    ctx.set_extra("supplement_free_running_sampling", json!({"what": "SUPPLEMENT, SAMPLING (not a deciding step, not counted in evaluations): 16 real OS threads x 300 calls each on one shared sprite, free-running", "calls": 16 * iters, "mismatches": bad.load(Relaxed)}));
    if bad.load(Relaxed) > 0 {
        ctx.violation(Violation { family: "free-running".into(), case: "16 threads".into(), sig: "thread-dependent".into(), detail: format!("{} calls returned a different result under real concurrency", bad.load(Relaxed)), bytes: Some(bytes), extra: json!({}) });
    }
}

fn configurations(ctx: &Ctx, thorough: bool) {
    let profiles: Vec<&str> = if thorough { vec!["checked", "plain", "unopt"] } else { vec!["checked", "plain"] };
    // input family: field corruptions of the bases that load, M3, stack sprites
    let mut fams: Vec<faults::InputFam> = Vec::new();
    let bases = faults::based_files(false);
    fams.extend(faults::m2(&bases, false).into_iter().filter(|f| (f.name.starts_with("M2-field") && !f.name.ends_with("-big")) || (thorough && f.name == "M2-structural-big")));
    fams.push(faults::m3());
    fams.push(faults::m7());
    {
        let dims: Vec<usize> = (0..2).flat_map(|_| crate::props::c02::LAYER_DIMS.iter().copied()).collect();
        let vecs = Arc::new(ball_vec(&dims, 2));
        let v2 = vecs.clone();
        fams.push(faults::InputFam { name: "stacks-n2-k2".into(), what: "the C02 two-layer stack ball (k=2), incl. i16-extreme offsets".into(), n: vecs.len(), gen: Box::new(move |i| crate::props::c02::stack_sprite(&vecs[i]).encode()), label: Box::new(move |i| format!("{:?}", v2[i])) });
    }
    for fam in &fams {
        let fname = format!("profiles:{}", fam.name);
        if !ctx.wants_family(&fname) {
            continue;
        }
        ctx.family(&fname, fam.n as u64 * profiles.len() as u64, &format!("{} — load + full walk in profiles {:?}; (status, 64-bit observation digest) must agree case by case", fam.what, profiles), true);
        let mut results: Vec<HashMap<usize, (String, u64)>> = Vec::new();
        for prof in &profiles {
            // rendering the 400 KB base unoptimised takes minutes per hundred inputs: `big` is compared between the two optimised profiles only
            if *prof == "unopt" && fam.name.ends_with("-big") {
                results.push(HashMap::new());
                continue;
            }
            let pool = Pool::new(prof, 16, 60.0);
            let map: Mutex<HashMap<usize, (String, u64)>> = Mutex::new(HashMap::new());
            pool.run(fam.n, &|i| (worker::KIND_LOAD_WALK, 4u64 << 30, (fam.gen)(i)), &|i, _b, r: TaskResult| {
                // error messages may legitimately embed nothing profile-specific; compare status class + digest
                let st = match &r.status {
                    worker::Status::Err => format!("err:{}", r.msg.split(':').next().unwrap_or("")),
                    other => format!("{:?}", other),
                };
                map.lock().unwrap().insert(i, (st, r.digest));
            });
            results.push(map.into_inner().unwrap());
        }
        for i in 0..fam.n {
            let case = || format!("idx={} {}", i, (fam.label)(i));
            if !ctx.wants(&fname, &case) {
                continue;
            }
            ctx.eval(profiles.len() as u64);
            let first = results[0].get(&i);
            ctx.outcome(hash64(&first));
            for (pi, r) in results.iter().enumerate().skip(1) {
                if r.is_empty() {
                    continue;
                }
                if r.get(&i) != first {
                    ctx.violation(Violation {
                        family: fname.clone(),
                        case: case(),
                        sig: format!("profile-dependent:{}-vs-{}", profiles[0], profiles[pi]),
                        detail: format!("{}: {:?} in profile {}, {:?} in profile {}", (fam.label)(i), first, profiles[0], r.get(&i), profiles[pi]),
                        bytes: Some((fam.gen)(i)),
                        extra: json!({}),
                    });
                }
            }
        }
    }
}

/// source scan reported as an assumption (held / not held), never as a verdict
fn source_scan(ctx: &Ctx) {
    let pat = ["Cell<", "RefCell", "Mutex", "RwLock", "Atomic", "Once", "static mut", "thread_local", "unsafe"];
    let mut hits = Vec::new();
    if let Ok(rd) = std::fs::read_dir("/repo/src") {
        for e in rd.filter_map(|e| e.ok()) {
            let p = e.path();
            if p.extension().map_or(false, |x| x == "rs") {
                if let Ok(t) = std::fs::read_to_string(&p) {
                    for (ln, line) in t.lines().enumerate() {
                        let code = line.split("//").next().unwrap_or("");
                        for k in pat {
                            if code.contains(k) {
                                hits.push(format!("{}:{}: {}", p.file_name().unwrap().to_string_lossy(), ln + 1, k));
                            }
                        }
                    }
                }
            }
        }
    }
    hits.sort();
    ctx.assume(format!("ASSUMPTION for the 'preemption inside one call' part (family schedules-sync makes the library's own synchronisation operations scheduling points; plain memory accesses are not): no interior mutability, statics, thread-locals or unsafe in /repo/src — source scan: {}", if hits.is_empty() { "held (no occurrence)".to_string() } else { format!("NOT held: {}", hits.join("; ")) }));
    ctx.set_extra("source_scan_hits", json!(hits));
}

pub fn run(ctx: &Ctx) -> i32 {
    let thorough = ctx.tier == Tier::Thorough;
    sendsync(ctx);
    histories(ctx, thorough);
    wide_histories(ctx, thorough);
    cross_load(ctx, thorough);
    readers(ctx);
    log_levels(ctx);
    schedules(ctx, thorough);
    schedules_sync(ctx, thorough);
    free_running(ctx);
    configurations(ctx, thorough);
    source_scan(ctx);
    ctx.finish()
}
