//! C03 — blend modes reproduce Aseprite's blend arithmetic bit for bit.
use crate::props::blendgrid::*;
use mc_core::blend;
use mc_core::explore::*;
use rayon::prelude::*;
use serde_json::json;
use std::sync::atomic::{AtomicU64, Ordering::Relaxed};

pub fn run(ctx: &Ctx) -> i32 {
    let fams = families(ctx.tier);
    let ub_points = AtomicU64::new(0);
    let range_points = AtomicU64::new(0);
    let pixels = AtomicU64::new(0);
    for fam in &fams {
        if !ctx.wants_family(fam.name) {
            continue;
        }
        let tasks: Vec<(usize, u16)> = (0..fam.n).flat_map(|i| fam.modes.iter().map(move |m| (i, *m))).collect();
        ctx.family(fam.name, tasks.len() as u64, &format!("{} — {} specs x {} modes; every pixel of every rendered sprite compared bit for bit with the C++ reference", fam.what, fam.n, fam.modes.len()), true);
        // group by spec so the arrays are built once
        (0..fam.n).into_par_iter().for_each(|i| {
            let any = fam.modes.iter().any(|m| ctx.wants(fam.name, &|| format!("spec{} mode{}", i, m)));
            if !any {
                return;
            }
            let sp = (fam.build)(i);
            let n = sp.b.len();
            let op = blend::mul_un8(sp.lo, sp.co);
            let mut expect = vec![0u32; n];
            let mut fl = vec![0u8; n];
            for m in &fam.modes {
                let case = || format!("spec{} mode{}", i, m);
                if !ctx.wants(fam.name, &case) {
                    continue;
                }
                blend::blend_row(*m as usize, &sp.b, &sp.s, op, &mut expect, &mut fl);
                let got = match render(*m, &sp) {
                    Ok(g) => g,
                    Err((msg, bytes)) => {
                        ctx.eval_n(n as u64, n as u64);
                        ctx.violation(Violation { family: fam.name.into(), case: case(), sig: format!("render-failed:{}", crate::common::sig_of(&msg)), detail: format!("{} (mode {}, lo {}, co {})", msg, m, sp.lo, sp.co), bytes: if bytes.len() < 300_000 { Some(bytes) } else { None }, extra: json!({}) });
                        continue;
                    }
                };
                let mut ub = 0;
                let mut rg = 0;
                let mut bad: Option<usize> = None;
                let mut nbad = 0u64;
                for k in 0..n {
                    if fl[k] & blend::FLAG_RANGE != 0 {
                        rg += 1;
                    }
                    if fl[k] & blend::FLAG_UB != 0 {
                        ub += 1;
                        continue;
                    }
                    let (e, g) = (expect[k], got[k]);
                    if e != g && !((e >> 24) == 0 && (g >> 24) == 0) {
                        nbad += 1;
                        if bad.is_none() {
                            bad = Some(k);
                        }
                    }
                }
                ub_points.fetch_add(ub, Relaxed);
                range_points.fetch_add(rg, Relaxed);
                pixels.fetch_add(n as u64, Relaxed);
                ctx.eval_n(n as u64, n as u64);
                ctx.outcome(hash64(&got));
                if let Some(k) = bad {
                    ctx.violation(Violation {
                        family: fam.name.into(),
                        case: case(),
                        sig: format!("pixel-mismatch:mode{}", m),
                        detail: format!("{} pixels differ; first: {} -> library {:?}, Aseprite reference {:?}", nbad, describe_px(*m, sp.b[k], sp.s[k], sp.lo, sp.co), got[k].to_le_bytes(), expect[k].to_le_bytes()),
                        bytes: Some(sprite(*m, &Spec { w: 1, h: 1, b: vec![sp.b[k]], s: vec![sp.s[k]], lo: sp.lo, co: sp.co, via_tilemap: sp.via_tilemap, flags: sp.flags })),
                        extra: json!({"mode": m, "backdrop": sp.b[k].to_le_bytes(), "source": sp.s[k].to_le_bytes(), "layer_opacity": sp.lo, "cel_opacity": sp.co, "library": got[k].to_le_bytes(), "reference": expect[k].to_le_bytes(), "replay_file_is": "a 1x1 two-layer sprite with exactly this pixel pair"}),
                    });
                }
            }
        });
    }
    ctx.set_extra("pixels_compared", json!(pixels.load(Relaxed)));
    ctx.set_extra("points_excluded_cpp_undefined", json!(ub_points.load(Relaxed)));
    ctx.set_extra("points_where_reference_channel_left_0_255", json!(range_points.load(Relaxed)));
    ctx.sample(json!({"mode": "soft_light", "backdrop": [64, 1, 200, 128], "source": [63, 255, 191, 254], "layer_opacity": 255, "cel_opacity": 255, "meaning": "one pixel of a Q1 sprite: frame image pixel compared with ref_blend(mode, backdrop, source, mul_un8(255,255))"}));
    ctx.assume("reference = C++ transcription of Aseprite's blend_funcs.cpp (parts verbatim from ref/dummy.cc), built with -ffp-contract=off; validated against 39 GUI-rendered corpus images by `mc selftest`");
    ctx.assume("evaluations counts pixels (one (mode, backdrop, source, opacity) point each); states in this evidence = pixels, transitions = pixels");
    ctx.finish()
}
