//! C03 — blend modes reproduce Aseprite's blend arithmetic bit for bit.
use crate::props::blendgrid::*;
use mc_core::blend;
use mc_core::explore::*;
use rayon::prelude::*;
use serde_json::json;
use std::sync::atomic::{AtomicU64, Ordering::Relaxed};

pub fn run(ctx: &Ctx) -> i32 {
    let fams = families(ctx.tier);
    let ub_points = AtomicU64::new(0);
    let range_points = AtomicU64::new(0);
    let pixels = AtomicU64::new(0);
    for fam in &fams {
        if !ctx.wants_family(fam.name) {
            continue;
        }
        let tasks: Vec<(usize, u16)> = (0..fam.n).flat_map(|i| fam.modes.iter().map(move |m| (i, *m))).collect();
        ctx.family(fam.name, tasks.len() as u64, &format!("{} — {} specs x {} modes; every pixel of every rendered sprite compared bit for bit with the C++ reference", fam.what, fam.n, fam.modes.len()), true);
        // group by spec so the arrays are built once
        (0..fam.n).into_par_iter().for_each(|i| {
            let any = fam.modes.iter().any(|m| ctx.wants(fam.name, &|| format!("spec{} mode{}", i, m)));
            if !any {
                return;
            }
            let sp = (fam.build)(i);
            let n = sp.b.len();
            let op = blend::mul_un8(sp.lo, sp.co);
            let mut expect = vec![0u32; n];
            let mut fl = vec![0u8; n];
            for m in &fam.modes {
                let case = || format!("spec{} mode{}", i, m);
                if !ctx.wants(fam.name, &case) {
                    continue;
                }
                blend::blend_row(*m as usize, &sp.b, &sp.s, op, &mut expect, &mut fl);
                let got = match render(*m, &sp) {
                    Ok(g) => g,
                    Err((msg, bytes)) => {
                        ctx.eval_n(n as u64, n as u64);
                        ctx.violation(Violation { family: fam.name.into(), case: case(), sig: format!("render-failed:{}", crate::common::sig_of(&msg)), detail: format!("{} (mode {}, lo {}, co {})", msg, m, sp.lo, sp.co), bytes: if bytes.len() < 300_000 { Some(bytes) } else { None }, extra: json!({}) });
                        continue;
                    }
                };
                let mut ub = 0;
                let mut rg = 0;
                let mut bad: Option<usize> = None;
                let mut nbad = 0u64;
                for k in 0..n {
                    if fl[k] & blend::FLAG_RANGE != 0 {
                        rg += 1;
                    }
                    if fl[k] & blend::FLAG_UB != 0 {
                        ub += 1;
                        continue;
                    }
                    let (e, g) = (expect[k], got[k]);
                    if e != g && !((e >> 24) == 0 && (g >> 24) == 0) {
                        nbad += 1;
                        if bad.is_none() {
                            bad = Some(k);
                        }
                    }
                }
                ub_points.fetch_add(ub, Relaxed);
                range_points.fetch_add(rg, Relaxed);
                pixels.fetch_add(n as u64, Relaxed);
                ctx.eval_n(n as u64, n as u64);
                ctx.outcome(hash64(&got));
                if let Some(k) = bad {
                    ctx.violation(Violation {
                        family: fam.name.into(),
                        case: case(),
                        sig: format!("pixel-mismatch:mode{}", m),
                        detail: format!("{} pixels differ; first: {} -> library {:?}, Aseprite reference {:?}", nbad, describe_px(*m, sp.b[k], sp.s[k], sp.lo, sp.co), got[k].to_le_bytes(), expect[k].to_le_bytes()),
                        bytes: Some(sprite(*m, &Spec { w: 1, h: 1, b: vec![sp.b[k]], s: vec![sp.s[k]], lo: sp.lo, co: sp.co, via_tilemap: sp.via_tilemap, flags: sp.flags, pad: 0, hflags: 1 })),
                        extra: json!({"mode": m, "backdrop": sp.b[k].to_le_bytes(), "source": sp.s[k].to_le_bytes(), "layer_opacity": sp.lo, "cel_opacity": sp.co, "library": got[k].to_le_bytes(), "reference": expect[k].to_le_bytes(), "replay_file_is": "a 1x1 two-layer sprite with exactly this pixel pair"}),
                    });
                }
            }
        });
    }

    // several blended layers in one frame: the mode of one layer must not leak into another
    if ctx.wants_family("mode-pairs") {
        use crate::common::{load, Loaded};
        use mc_core::ase::*;
        use mc_core::gen;
        let colours: [(u32, u32); 8] = [
            (px(200, 120, 40, 255), px(60, 180, 220, 255)),
            (px(200, 120, 40, 255), px(60, 180, 220, 128)),
            (px(200, 120, 40, 130), px(60, 180, 220, 255)),
            (px(10, 250, 128, 77), px(240, 5, 127, 200)),
            (px(255, 255, 255, 255), px(1, 1, 1, 254)),
            (px(0, 0, 0, 255), px(128, 128, 128, 255)),
            (px(90, 90, 90, 1), px(200, 10, 100, 255)),
            (px(33, 66, 99, 255), px(33, 66, 99, 255)),
        ];
        let ops = [(255u8, 255u8), (200, 160)];
        let mut cases: Vec<(u16, u16, usize, usize)> = Vec::new();
        for m1 in 0..19u16 {
            for m2 in 0..19u16 {
                for c in 0..colours.len() {
                    for o in 0..ops.len() {
                        cases.push((m1, m2, c, o));
                    }
                }
            }
        }
        ctx.family("mode-pairs", cases.len() as u64, "a 3x1 frame with a Normal base layer of one colour B under two further layers of modes m1 and m2 (all 19 x 19 ordered pairs) whose 1x1 cels hold the same source colour S with the same opacities, at x=0 and x=1, and both at x=2 (m2 over the result of m1): 8 (B,S) pairs x 2 opacity pairs; every pixel compared with the C++ reference applied layer by layer", true);
        cases.par_iter().for_each(|(m1, m2, ci, oi)| {
            let case = || format!("m1={} m2={} colours#{} ops#{}", m1, m2, ci, oi);
            if !ctx.wants("mode-pairs", &case) {
                return;
            }
            let (b, s) = colours[*ci];
            let (lo, co) = ops[*oi];
            let op = blend::mul_un8(lo, co);
            let fmt = mc_core::sem::Fmt::Rgba;
            let mut f = gen::file(3, 1, &fmt, &[1]);
            f.frames[0].push(Body::Layer(Layer::image("base")));
            for (nm, m) in [("one", m1), ("two", m2)] {
                let mut l = Layer::image(nm);
                l.blend = *m;
                l.opacity = lo;
                f.frames[0].push(Body::Layer(l));
            }
            let bb: Vec<u8> = [b, b, b].iter().flat_map(|p| p.to_le_bytes()).collect();
            f.frames[0].push(gen::raw_cel(0, 0, 0, 255, 3, 1, bb));
            // layer 1 covers x=0 and x=2, layer 2 covers x=1 and x=2
            let s2: Vec<u8> = [s, 0, s].iter().flat_map(|p| p.to_le_bytes()).collect();
            f.frames[0].push(gen::raw_cel(1, 0, 0, co, 3, 1, s2));
            f.frames[0].push(gen::raw_cel(2, 1, 0, co, 2, 1, [s, s].iter().flat_map(|p| p.to_le_bytes()).collect()));
            let bytes = f.encode();
            let one = |m: u16, bd: u32| -> (u32, u8) {
                let (mut e, mut fl) = ([0u32; 1], [0u8; 1]);
                blend::blend_row(m as usize, &[bd], &[s], op, &mut e, &mut fl);
                (e[0], fl[0])
            };
            let (e0, f0) = one(*m1, b);
            let (e1, f1) = one(*m2, b);
            let (e2, f2) = one(*m2, e0);
            let expect = [(e0, f0), (e1, f1), (e2, f0 | f2)];
            ctx.eval_n(3, 3);
            let got: Vec<u32> = match load(&bytes) {
                Loaded::Ok(file) => {
                    let mut p = Vec::new();
                    match crate::observe::guarded(&mut p, || "frame(0).image".into(), || file.frame(0).image()) {
                        Some(i) => i.into_raw().chunks_exact(4).map(|c| u32::from_le_bytes([c[0], c[1], c[2], c[3]])).collect(),
                        None => {
                            ctx.violation(Violation { family: "mode-pairs".into(), case: case(), sig: format!("render-failed:{}", crate::common::sig_of(&p[0].1)), detail: p[0].1.clone(), bytes: Some(bytes), extra: json!({}) });
                            return;
                        }
                    }
                }
                _ => {
                    ctx.violation(Violation { family: "mode-pairs".into(), case: case(), sig: "render-failed:load".into(), detail: "the sprite does not load".into(), bytes: Some(bytes), extra: json!({}) });
                    return;
                }
            };
            ctx.outcome(hash64(&got));
            for x in 0..3 {
                let (e, fl) = expect[x];
                if fl & blend::FLAG_UB != 0 {
                    continue;
                }
                let g = got[x];
                if e != g && !((e >> 24) == 0 && (g >> 24) == 0) {
                    ctx.violation(Violation { family: "mode-pairs".into(), case: case(), sig: format!("pixel-mismatch:layers-interfere:x{}", x), detail: format!("pixel x={}: library {:?}, reference {:?} (B={:?} S={:?} opacity {} ; layer modes {} then {})", x, g.to_le_bytes(), e.to_le_bytes(), b.to_le_bytes(), s.to_le_bytes(), op, blend::MODE_NAMES[*m1 as usize], blend::MODE_NAMES[*m2 as usize]), bytes: Some(bytes.clone()), extra: json!({}) });
                    break;
                }
            }
        });
    }
    ctx.set_extra("pixels_compared", json!(pixels.load(Relaxed)));
    ctx.set_extra("points_excluded_cpp_undefined", json!(ub_points.load(Relaxed)));
    ctx.set_extra("points_where_reference_channel_left_0_255", json!(range_points.load(Relaxed)));
    ctx.sample(json!({"mode": "soft_light", "backdrop": [64, 1, 200, 128], "source": [63, 255, 191, 254], "layer_opacity": 255, "cel_opacity": 255, "meaning": "one pixel of a Q1 sprite: frame image pixel compared with ref_blend(mode, backdrop, source, mul_un8(255,255))"}));
    ctx.assume("reference = C++ transcription of Aseprite's blend_funcs.cpp (parts verbatim from ref/dummy.cc), built with -ffp-contract=off; validated against 39 GUI-rendered corpus images by `mc selftest`");
    ctx.assume("evaluations counts pixels (one (mode, backdrop, source, opacity) point each); states in this evidence = pixels, transitions = pixels");
    ctx.finish()
}
