pub mod c01;
pub mod blendgrid;
pub mod c02;
pub mod c03;
pub mod c0405;
pub mod c06;
pub mod c07;
pub mod c08;
pub mod c09;
pub mod c10;
pub mod c11;
pub mod c12;
pub mod c13;
pub mod c14;
pub mod c15;
pub mod c16;
pub mod c16_subject;
pub mod c17;
pub mod c18;
pub mod c19;
pub mod faults;
pub mod selftest;

use mc_core::explore::{Ctx, Tier};

pub fn run(prop: &str, tier: Tier, only: Option<(String, String)>) -> i32 {
    let root = crate::root();
    let mk = |level: &'static str| {
        let mut c = Ctx::new(prop, tier, level, &root);
        c.only = only.clone();
        c
    };
    match prop {
        "C01" => c01::run(&mk("model_checking")),
        "C02" => c02::run(&mk("model_checking")),
        "C03" => c03::run(&mk("model_checking")),
        "C04" => c0405::run(&mk("fault_enumeration"), false),
        "C05" => c0405::run(&mk("fault_enumeration"), true),
        "C06" => c06::run(&mk("model_checking")),
        "C07" => c07::run(&mk("model_checking")),
        "C08" => c08::run(&mk("model_checking")),
        "C09" => c09::run(&mk("model_checking")),
        "C10" => c10::run(&mk("model_checking")),
        "C11" => c11::run(&mk("model_checking")),
        "C12" => c12::run(&mk("fault_enumeration")),
        "C13" => c13::run(&mk("fault_enumeration")),
        "C14" => c14::run(&mk("model_checking")),
        "C15" => c15::run(&mk("exploration")),
        "C16" => c16::run(&mk("model_checking")),
        "C17" => c17::run(&mk("model_checking")),
        "C18" => c18::run(&mk("exploration")),
        "C19" => c19::run(&mk("model_checking")),
        _ => {
            eprintln!("unknown property {}", prop);
            2
        }
    }
}
