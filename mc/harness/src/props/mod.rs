pub mod c01;
pub mod c02;
pub mod c09;
pub mod selftest;

use mc_core::explore::{Ctx, Tier};

pub fn run(prop: &str, tier: Tier, only: Option<(String, String)>) -> i32 {
    let root = crate::root();
    let mk = |level: &'static str| {
        let mut c = Ctx::new(prop, tier, level, &root);
        c.only = only.clone();
        c
    };
    match prop {
        "C01" => c01::run(&mk("model_checking")),
        "C02" => c02::run(&mk("model_checking")),
        "C09" => c09::run(&mk("model_checking")),
        _ => {
            eprintln!("unknown property {}", prop);
            2
        }
    }
}
