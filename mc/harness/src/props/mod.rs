pub mod selftest;

use mc_core::explore::{Ctx, Tier};

pub fn run(prop: &str, tier: Tier, only: Option<(String, String)>) -> i32 {
    let root = crate::root();
    let mk = |level: &'static str| {
        let mut c = Ctx::new(prop, tier, level, &root);
        c.only = only.clone();
        c
    };
    match prop {
        _ => {
            let _ = mk;
            eprintln!("unknown property {}", prop);
            2
        }
    }
}
