//! C04 — loading is total; C05 — a sprite that loads is fully usable.
//! Fault enumeration in isolated worker processes (2 MiB task thread, counting allocator).
use crate::props::faults::*;
use crate::worker::{self, Pool, Status, TaskResult};
use mc_core::explore::*;
use serde_json::json;
use std::sync::atomic::{AtomicU64, Ordering::Relaxed};

pub fn run(ctx: &Ctx, walk: bool) -> i32 {
    let thorough = ctx.tier == Tier::Thorough;
    let fams = all_families(ctx.tier);
    // profile plan: (profile, family filter)
    let mut plan: Vec<(&str, Box<dyn Fn(&str) -> bool>)> = vec![("checked", Box::new(|_| true))];
    if thorough {
        plan.push(("unopt", Box::new(|n: &str| n.starts_with("M2-field") || n.starts_with("M2-structural") || n.starts_with("M3") || n.starts_with("M7") || n.starts_with("M5") || n.starts_with("M6") || n.starts_with("M4"))));
        plan.push(("plain", Box::new(|n: &str| n.starts_with("M2-field") || n.starts_with("M2-structural") || n.starts_with("M3") || n.starts_with("M7") || n.starts_with("M6"))));
    } else if !walk {
        plan.push(("unopt", Box::new(|n: &str| n.starts_with("M3") || n.starts_with("M7") || n == "M2-field-b1" || n == "M2-field-b3")));
    }
    let loaded = AtomicU64::new(0);
    let refused = AtomicU64::new(0);
    for (prof, filter) in &plan {
        let pool = Pool::new(prof, 16, 30.0);
        for fam in &fams {
            if !filter(&fam.name) {
                continue;
            }
            // the 400 KB base is walked (rendered) only in the thorough tier; the quick tier loads it (C04) and measures it (C12)
            // walk-based check: the full field sweep of the 400 KB base is load-only business (C04, C12);
            // its structural-field sweep is walked in the optimised profiles of the thorough tier
            if walk && fam.name == "M2-field-big" {
                continue;
            }
            if walk && (!thorough || *prof == "unopt") && fam.name.ends_with("-big") {
                continue;
            }
            if !walk && fam.name == "M2-structural-big" {
                continue;
            }
            // walk-based check in the extra profiles: field sweeps of the generated bases only (the corpus
            // sweeps are walked in `checked`; C04 loads them in all three profiles)
            if walk && *prof != "checked" && fam.name.starts_with("M2-field-") && !["-b1", "-b2", "-b3", "-b4", "-d1i"].iter().any(|s| fam.name.ends_with(s)) {
                continue;
            }
            let fname = if *prof == "checked" { fam.name.clone() } else { format!("{}@{}", fam.name, prof) };
            if !ctx.wants_family(&fname) {
                continue;
            }
            let scale = fam.name.starts_with("M6");
            let p = if scale { Pool { bin: pool.bin.clone(), workers: 6, timeout: std::time::Duration::from_secs(180) } } else { Pool { bin: pool.bin.clone(), workers: 16, timeout: pool.timeout } };
            // replay mode: only the one index named in the case string
            let only_idx: Option<usize> = ctx.only.as_ref().and_then(|(_, c)| c.strip_prefix("idx=").and_then(|r| r.split(' ').next()).and_then(|s| s.parse().ok()));
            let indices: Vec<usize> = match only_idx {
                Some(i) if i < fam.n => vec![i],
                Some(_) => vec![],
                None => (0..fam.n).collect(),
            };
            ctx.family(&fname, indices.len() as u64, &format!("{} [profile {}; {}]", fam.what, prof, if walk { "load + full accessor walk" } else { "load" }), true);
            let kind = if walk { if scale { worker::KIND_LOAD_WALK_NOIMG } else { worker::KIND_LOAD_WALK } } else { worker::KIND_LOAD };
            p.run(
                indices.len(),
                &|k| (kind, 4u64 << 30, (fam.gen)(indices[k])),
                &|k, bytes, r: TaskResult| {
                    let i = indices[k];
                    let sig = worker::status_sig(&r);
                    ctx.eval(if walk && r.status == Status::Ok { 200 } else { 1 });
                    ctx.outcome(hash64(&(&fname, &sig, r.digest)));
                    match r.status {
                        Status::Ok | Status::WalkPanic => {
                            loaded.fetch_add(1, Relaxed);
                        }
                        Status::Err => {
                            refused.fetch_add(1, Relaxed);
                        }
                        _ => {}
                    }
                    // C04: anything but a sprite or an error value is a violation.
                    // C05 judges only inputs that load: an accessor panic is a violation; an
                    // abort/timeout/over-budget is attributed to the walk (and so to C05) only if a
                    // load-only run of the same input returns a sprite.
                    let bad = if !walk {
                        !matches!(r.status, Status::Ok | Status::Err)
                    } else if matches!(r.status, Status::WalkPanic) {
                        true
                    } else if matches!(r.status, Status::Abort(_) | Status::Timeout | Status::Budget) {
                        let flag = std::sync::atomic::AtomicBool::new(false);
                        let single = Pool { bin: p.bin.clone(), workers: 1, timeout: p.timeout };
                        single.run(1, &|_| (worker::KIND_LOAD, 4u64 << 30, bytes.to_vec()), &|_, _, r2| {
                            if r2.status == Status::Ok {
                                flag.store(true, Relaxed);
                            }
                        });
                        flag.load(Relaxed)
                    } else {
                        false
                    };
                    if bad {
                        let case = format!("idx={} {}", i, (fam.label)(i));
                        ctx.violation(Violation {
                            family: fname.clone(),
                            case,
                            sig,
                            detail: format!("{:?}: {} (peak heap {} B, largest request {} B, {:.2} s)", r.status, r.msg, r.peak, r.largest, r.wall),
                            bytes: if bytes.len() <= 300_000 { Some(bytes.to_vec()) } else { None },
                            extra: json!({"profile": prof, "input_len": bytes.len(), "label": (fam.label)(i)}),
                        });
                    }
                },
            );
        }
    }
    // C04 only: the file-backed entry point (read_file) on the small families
    if !walk {
        let pool = Pool::new("checked", 16, 30.0);
        for fam in &fams {
            let small = fam.name == "M5-tiny" || fam.name == "M3-inconsistent" || fam.name == "M7-program" || fam.name == "M2-field-b2" || fam.name == "M2-field-b4" || fam.name == "M4-prefix-b1" || (thorough && fam.name.starts_with("M2-field-b"));
            if !small {
                continue;
            }
            let fname = format!("{}@read_file", fam.name);
            if !ctx.wants_family(&fname) {
                continue;
            }
            let only_idx: Option<usize> = ctx.only.as_ref().and_then(|(_, c)| c.strip_prefix("idx=").and_then(|r| r.split(' ').next()).and_then(|s| s.parse().ok()));
            let indices: Vec<usize> = match only_idx {
                Some(i) if i < fam.n => vec![i],
                Some(_) => vec![],
                None => (0..fam.n).collect(),
            };
            ctx.family(&fname, indices.len() as u64, &format!("{} [written to a temporary file and loaded with AsepriteFile::read_file]", fam.what), true);
            pool.run(
                indices.len(),
                &|k| (worker::KIND_LOAD_FILE, 4u64 << 30, (fam.gen)(indices[k])),
                &|k, bytes, r: TaskResult| {
                    let i = indices[k];
                    let sig = worker::status_sig(&r);
                    ctx.eval(1);
                    ctx.outcome(hash64(&(&fname, &sig)));
                    if !matches!(r.status, Status::Ok | Status::Err) {
                        ctx.violation(Violation {
                            family: fname.clone(),
                            case: format!("idx={} {}", i, (fam.label)(i)),
                            sig,
                            detail: format!("read_file: {:?}: {}", r.status, r.msg),
                            bytes: if bytes.len() <= 300_000 { Some(bytes.to_vec()) } else { None },
                            extra: json!({"route": "read_file"}),
                        });
                    }
                },
            );
        }
    }
    ctx.set_extra("inputs_that_loaded", json!(loaded.load(Relaxed)));
    ctx.set_extra("inputs_refused_with_an_error_value", json!(refused.load(Relaxed)));
    ctx.sample(json!({"family": "M2-field-b1", "case": "b1 frame[0].chunk[15].cel_layer#0=65535", "meaning": "base b1 with the layer index field of its first cel chunk overwritten with 65535 (no size recomputation)"}));
    ctx.sample(json!({"family": "M3-inconsistent", "case": "fmt2 declared=2x2 actual=3 carrier=1", "meaning": "indexed sprite, a compressed cel declaring 2x2 pixels whose stream inflates to 3 pixels"}));
    if walk {
        ctx.assume("history-independence of the accessor walk is C16's business; C05 walks each loaded sprite once in a fixed order");
        ctx.note("canvas-sized images are skipped when the canvas exceeds 2^22 pixels (a legitimate multi-gigabyte demand, not a defect); M6 inputs are walked without images");
    } else {
        ctx.note("an allocation request that takes live heap above 4 GiB is classified as an abort (over-budget): it is an allocation-failure abort on any machine without that much memory");
    }
    ctx.finish()
}
