//! C02 — frame image = bottom-to-top composition of visible layers.
use crate::common::*;
use mc_core::ase::*;
use mc_core::explore::*;
use mc_core::gen::{self, *};
use mc_core::obs::Want;
use mc_core::sem::Fmt;
use rayon::prelude::*;
use serde_json::json;

pub const BLENDS: [u16; 5] = [0, 1, 2, 16, 12];
pub const OPS: [u8; 4] = [255, 128, 1, 0];
pub const OFFS: [i16; 8] = [0, -1, -2, 1, 2, 3, -32768, 32767];
/// cel shapes: 0 full canvas, 1 absent, 2 linked to the other frame, 3 1x1, 4 2x3, 5 5x4
pub const NSHAPE: usize = 6;
/// per-layer coordinate alphabets: blend, layer opacity, visible, kind, cel shape, x, y, cel opacity
pub const LAYER_DIMS: [usize; 8] = [5, 4, 4, 4, NSHAPE, 8, 8, 4];
/// layer flag words of the `vis` coordinate: visible+editable, hidden, visible+background+locked, visible + every other defined bit
pub const LAYER_FLAGS: [u16; 4] = [3, 2, 1 | 4 | 8, 1 | 2 | 0x10 | 0x20 | 0x40];

pub const CW: u16 = 3;
pub const CH: u16 = 2;

/// Build the two-frame stack sprite described by `v` (8 coordinates per layer).
pub fn stack_sprite(v: &[usize]) -> File {
    stack_sprite_on(v, CW, CH)
}

pub fn stack_sprite_on(v: &[usize], cw: u16, chh: u16) -> File {
    stack_sprite_fmt(v, cw, chh, &Fmt::Rgba)
}

pub fn stack_sprite_fmt(v: &[usize], cw: u16, chh: u16, fmt: &Fmt) -> File {
    let fmt = fmt.clone();
    let n = v.len() / 8;
    let mut f = gen::file(cw, chh, &fmt, &[100, 100]);
    if let Fmt::Indexed(t) = fmt {
        // entries with alpha below 255 as well; the transparent index is in use (index 200: only by the blank tile 0)
        f.frames[0].push(new_palette(0, pal_entries((t as usize + 1).max(8), 3)));
    }
    // shared tileset for tilemap layers: 1x1 tiles, tile 0 transparent
    let uses_tilemap = (0..n).any(|i| v[i * 8 + 3] == 3);
    if uses_tilemap {
        f.frames[0].push(Body::Tileset(tileset(1, 5, 1, 1, tile_pixels(&fmt, 5, 1, 1, 77, (0, 7)), "ts")));
    }
    let mut layer_index = Vec::new();
    let mut idx = 0u16;
    for i in 0..n {
        let c = &v[i * 8..i * 8 + 8];
        let kind = c[3];
        let mut level = 0;
        if kind == 1 || kind == 2 {
            let mut g = Layer::group(&format!("g{}", i));
            g.flags = if kind == 1 { 3 } else { 2 };
            // a group's own opacity / blend fields do not take part in the composition the property defines
            g.opacity = 77;
            g.blend = 5;
            f.frames[0].push(Body::Layer(g));
            idx += 1;
            level = 1;
        }
        let mut l = if kind == 3 { Layer::tilemap(&format!("l{}", i), 1) } else { Layer::image(&format!("l{}", i)) };
        l.level = level;
        l.blend = BLENDS[c[0]];
        l.opacity = OPS[c[1]];
        l.flags = LAYER_FLAGS[c[2]];
        f.frames[0].push(Body::Layer(l));
        layer_index.push(idx);
        idx += 1;
    }
    for i in 0..n {
        let c = &v[i * 8..i * 8 + 8];
        let li = layer_index[i];
        let (w, h): (u16, u16) = match c[4] {
            0 | 2 => (cw, chh),
            1 => continue,
            3 => (1, 1),
            4 => (2, 3),
            _ => (5, 4),
        };
        let (x, y, op) = (OFFS[c[5]], OFFS[c[6]], OPS[c[7]]);
        let body = if c[3] == 3 {
            let tiles: Vec<u32> = (0..w as u32 * h as u32).map(|k| (k + i as u32) % 5).collect();
            tm_cel(li, x, y, op, w, h, tiles)
        } else {
            zcel(li, x, y, op, w, h, pixels(&fmt, w as usize, h as usize, 10 + i as u32, (0, 7)), 6)
        };
        if c[4] == 2 {
            // the real cel lives in frame 1; frame 0 links to it
            f.frames[1].push(body);
            f.frames[0].push(link_cel(li, 7, -7, 9, 1));
        } else {
            f.frames[0].push(body);
        }
    }
    f
}

fn describe(v: &[usize]) -> String {
    let n = v.len() / 8;
    let mut s = format!("n={}", n);
    let names = ["blend", "lop", "vis", "kind", "shape", "x", "y", "cop"];
    for (i, x) in v.iter().enumerate() {
        if *x != 0 {
            s.push_str(&format!(",L{}.{}={}", i / 8, names[i % 8], x));
        }
    }
    s
}

pub fn run(ctx: &Ctx) -> i32 {
    let thorough = ctx.tier == Tier::Thorough;
    let want = Want::all();
    // Hamming balls around the default stack
    let plan: Vec<(usize, usize)> = if thorough { vec![(1, 8), (2, 5), (3, 4), (4, 3)] } else { vec![(1, 3), (2, 3), (3, 3), (4, 2)] };
    for (n, k) in plan {
        let fam = format!("stack-n{}-k{}", n, k);
        if !ctx.wants_family(&fam) {
            continue;
        }
        let dims: Vec<usize> = (0..n).flat_map(|_| LAYER_DIMS.iter().copied()).collect();
        let vecs = ball_vec(&dims, k);
        ctx.family(&fam, vecs.len() as u64, &format!("{}-layer stacks on a 3x2 canvas (2 frames): all vectors within Hamming distance {} of the default over per-layer coordinates blend x5, layer opacity x4, layer flags x4 {{visible, hidden, visible+background, visible+all other bits}}, kind {{image, child of visible group, child of hidden group, tilemap}}, cel shape {{full, absent, linked, 1x1, 2x3, 5x4}}, x x8, y x8 (incl. i16 extremes), cel opacity x4", n, k), true);
        vecs.par_iter().for_each(|v| {
            let case = || describe(v);
            if !ctx.wants(&fam, &case) {
                return;
            }
            let f = stack_sprite(v);
            conform(ctx, &fam, &case, &f, &want);
        });
        if n == 2 {
            ctx.sample(json!({"family": fam, "case": describe(&vecs[vecs.len() / 2]), "meaning": "coordinates that differ from the default stack; frame and cel images of both frames compared with the reference compositor"}));
        }
    }
    // the same balls for grayscale and indexed sprites (the composition works on the decoded RGBA pixels)
    for (fname, fmt) in [("gray", Fmt::Gray), ("indexed", Fmt::Indexed(0)), ("indexed-t5", Fmt::Indexed(5)), ("indexed-t200", Fmt::Indexed(200))] {
        for n in 1..=3usize {
            let k = if n == 3 { 1 } else if thorough { 3 } else { 2 };
            let fam = format!("stack-{}-n{}-k{}", fname, n, k);
            if !ctx.wants_family(&fam) {
                continue;
            }
            let dims: Vec<usize> = (0..n).flat_map(|_| LAYER_DIMS.iter().copied()).collect();
            let vecs = ball_vec(&dims, k);
            ctx.family(&fam, vecs.len() as u64, &format!("{}-layer stacks of a {} sprite (palette of 8 entries incl. translucent ones, transparent index in use) on the 3x2 canvas: all vectors within Hamming distance {} of the default over the same per-layer coordinates", n, fname, k), true);
            vecs.par_iter().for_each(|v| {
                let case = || describe(v);
                if !ctx.wants(&fam, &case) {
                    return;
                }
                let f = stack_sprite_fmt(v, CW, CH, &fmt);
                conform(ctx, &fam, &case, &f, &want);
            });
        }
    }
    // the same balls on a portrait canvas (2 wide, 3 tall) for 1 and 2 layers
    for n in 1..=2usize {
        let k = if thorough { 3 } else { 2 };
        let fam = format!("stack-portrait-n{}-k{}", n, k);
        if !ctx.wants_family(&fam) {
            continue;
        }
        let dims: Vec<usize> = (0..n).flat_map(|_| LAYER_DIMS.iter().copied()).collect();
        let vecs = ball_vec(&dims, k);
        ctx.family(&fam, vecs.len() as u64, &format!("{}-layer stacks on a 2x3 (portrait) canvas: Hamming ball of radius {} over the same per-layer coordinates", n, k), true);
        vecs.par_iter().for_each(|v| {
            let case = || describe(v);
            if !ctx.wants(&fam, &case) {
                return;
            }
            let f = stack_sprite_on(v, 2, 3);
            conform(ctx, &fam, &case, &f, &want);
        });
    }
    // the header's flag word (bit 0 = "layer opacity valid" in Aseprite) is not part of the composition the property defines
    if ctx.wants_family("header-flags") {
        let dims: Vec<usize> = (0..2).flat_map(|_| LAYER_DIMS.iter().copied()).collect();
        let vecs = ball_vec(&dims, 1);
        let flags = [0u32, 2, 0xFFFF_FFFE, 0xFFFF_FFFF, 0x8000_0001];
        ctx.family("header-flags", (vecs.len() * flags.len()) as u64, "two-layer stacks (radius-1 ball) x header flag word in {0, 2, 0xFFFFFFFE, 0xFFFFFFFF, 0x80000001}: the composition uses the layer opacity whatever the flag word says", true);
        vecs.par_iter().for_each(|v| {
            for fl in flags {
                let case = || format!("{} header.flags={:#x}", describe(v), fl);
                if !ctx.wants("header-flags", &case) {
                    continue;
                }
                let mut f = stack_sprite(v);
                f.header.flags = fl;
                conform(ctx, "header-flags", &case, &f, &want);
            }
        });
    }
    // the cel chunk's z-index field is not part of the composition the property defines (layer index order)
    if ctx.wants_family("z-index") {
        let zs = [0i16, 1, -1, 2, -2, 32767, -32768];
        let mut cases: Vec<(usize, usize, usize, u32)> = Vec::new();
        for a in 0..zs.len() {
            for b in 0..zs.len() {
                for c in 0..zs.len() {
                    for vis in 0..8u32 {
                        cases.push((a, b, c, vis));
                    }
                }
            }
        }
        ctx.family("z-index", cases.len() as u64, "three overlapping, blended layers (Normal / Multiply / Screen) whose cel chunks carry a z-index in {0, 1, -1, 2, -2, 32767, -32768} each (all 343 combinations) x all 8 visibility assignments: composition is by layer index whatever the z-index says", true);
        cases.par_iter().for_each(|(a, b, c, vis)| {
            let case = || format!("z=({},{},{}) vis={:03b}", zs[*a], zs[*b], zs[*c], vis);
            if !ctx.wants("z-index", &case) {
                return;
            }
            let fmt = Fmt::Rgba;
            let mut f = gen::file(4, 3, &fmt, &[10]);
            for (l, z) in [*a, *b, *c].iter().enumerate() {
                let mut ly = Layer::image(&format!("l{}", l));
                ly.blend = [0u16, 1, 2][l];
                ly.opacity = [255u8, 200, 180][l];
                ly.flags = if vis >> l & 1 == 1 { 3 } else { 2 };
                f.frames[0].chunks.insert(l, Chunk::new(Body::Layer(ly)));
                let mut cel = raw_cel(l as u16, l as i16 - 1, l as i16 - 1, 255 - 20 * l as u8, 3, 3, opaque_pixels(&fmt, 3, 3, l as u32 + 1, (0, 0)));
                if let Body::Cel(cc) = &mut cel {
                    cc.z_index = zs[*z];
                }
                f.frames[0].push(cel);
            }
            conform(ctx, "z-index", &case, &f, &want);
        });
    }
    // every assignment of {absent, own pixels, link to another frame} to the cells of a 3-frame x 2-layer sprite
    if ctx.wants_family("link-grid") {
        // per layer: option per frame: 0 absent, 1 raw, 2.. link to frame (k-2)
        let mut per_layer: Vec<[u8; 3]> = Vec::new();
        for a in 0..5u8 {
            for b in 0..5u8 {
                for c in 0..5u8 {
                    let v = [a, b, c];
                    let ok = (0..3).all(|f| {
                        let o = v[f];
                        o < 2 || ((o - 2) as usize != f && v[(o - 2) as usize] == 1)
                    });
                    if ok {
                        per_layer.push(v);
                    }
                }
            }
        }
        let cases: Vec<(usize, usize, u8)> = (0..per_layer.len()).flat_map(|a| (0..per_layer.len()).flat_map(move |b| (0..2u8).map(move |m| (a, b, m)))).collect();
        ctx.family("link-grid", cases.len() as u64, &format!("3 frames x 2 layers: every valid assignment of {{absent, own pixels, link to another frame holding own pixels}} to each cell ({} per layer, all pairs) x upper layer mode {{Normal, Multiply}}; frames rendered front to back and, on a second load, cel images first and frames back to front", per_layer.len()), true);
        cases.par_iter().for_each(|(a, b, m)| {
            let case = || format!("layer0={:?} layer1={:?} mode={}", per_layer[*a], per_layer[*b], m);
            if !ctx.wants("link-grid", &case) {
                return;
            }
            let fmt = Fmt::Rgba;
            let mut f = gen::file(3, 2, &fmt, &[10, 20, 30]);
            f.frames[0].push(Body::Layer(Layer::image("l0")));
            let mut l1 = Layer::image("l1");
            l1.blend = *m as u16;
            l1.opacity = 210;
            f.frames[0].push(Body::Layer(l1));
            for (l, v) in [per_layer[*a], per_layer[*b]].iter().enumerate() {
                for fr in 0..3usize {
                    match v[fr] {
                        0 => {}
                        1 => {
                            f.frames[fr].push(raw_cel(l as u16, (fr as i16) - 1, l as i16, 255 - 30 * fr as u8, 2, 2, pixels(&fmt, 2, 2, (l * 3 + fr) as u32 + 1, (0, 0))));
                        }
                        t => {
                            f.frames[fr].push(link_cel(l as u16, 1, 1, 200, (t - 2) as u16));
                        }
                    }
                }
            }
            conform(ctx, "link-grid", &case, &f, &want);
        });
    }
    // a tile placed in a map is drawn by its pixels, whatever its id: tilesets whose tile 0 is not blank
    if ctx.wants_family("tilemap-tile0") {
        let mut cases: Vec<(usize, u32, u8, u8)> = Vec::new();
        for fi in 0..3usize {
            for flags in [2u32, 6, 2 | 8, 6 | 0x10] {
                for lo in [255u8, 150] {
                    for mode in [0u8, 1] {
                        cases.push((fi, flags, lo, mode));
                    }
                }
            }
        }
        ctx.family("tilemap-tile0", cases.len() as u64, "a tilemap layer over an image layer, 3 pixel formats; the tileset's tile 0 has pixels of its own and the map (which covers the canvas) places tiles 0, 1, 2 in every arrangement of a 2x2 map; tileset flags {embedded, embedded+empty-tile-is-0, +8, +16} x layer opacity x mode", true);
        cases.par_iter().for_each(|(fi, flags, lo, mode)| {
            let fmt = [Fmt::Rgba, Fmt::Gray, Fmt::Indexed(0)][*fi].clone();
            for arr in 0..81u32 {
                let case = || format!("fmt{} tileset.flags={:#x} lo={} mode={} map#{}", fi, flags, lo, mode, arr);
                if !ctx.wants("tilemap-tile0", &case) {
                    continue;
                }
                let mut f = gen::file(4, 4, &fmt, &[10]);
                if *fi == 2 {
                    f.frames[0].push(new_palette(0, pal_entries(8, 3)));
                }
                let mut ts = tileset(1, 3, 2, 2, tile_pixels_full(&fmt, 3, 2, 2, 5, (1, 7)), "ts");
                ts.flags = *flags;
                f.frames[0].push(Body::Tileset(ts));
                f.frames[0].push(Body::Layer(Layer::image("below")));
                let mut l = Layer::tilemap("m", 1);
                l.opacity = *lo;
                l.blend = *mode as u16;
                f.frames[0].push(Body::Layer(l));
                f.frames[0].push(raw_cel(0, 0, 0, 255, 4, 4, pixels(&fmt, 4, 4, 2, (1, 7))));
                let tiles: Vec<u32> = (0..4).map(|k| arr / 3u32.pow(k) % 3).collect();
                f.frames[0].push(tm_cel(1, 0, 0, 255, 2, 2, tiles));
                conform(ctx, "tilemap-tile0", &case, &f, &want);
            }
        });
    }
    // several tilesets whose ids are not 0..n: every tilemap layer is drawn with the tileset its id names
    if ctx.wants_family("tileset-ids") {
        let idsets: [[u32; 3]; 7] = [[0, 1, 2], [0, 2, 3], [1, 2, 3], [0, 2, 4], [5, 1, 3], [0, 1, 0x10001], [7, 8, 300]];
        let cases: Vec<(usize, usize, usize)> = (0..idsets.len()).flat_map(|s| (0..3usize).flat_map(move |u| (0..3usize).map(move |f| (s, u, f)))).collect();
        ctx.family("tileset-ids", cases.len() as u64, "three tilesets with ids {0,1,2} / {0,2,3} / {1,2,3} / {0,2,4} / {5,1,3} (stored in that order) / {0,1,65537} / {7,8,300}, different tile pixels each, one tilemap layer per tileset, 3 pixel formats; the case picks which layer is visible alone and all three are composited in a second frame", true);
        cases.par_iter().for_each(|(si, vis, fi)| {
            let case = || format!("tileset ids {:?} visible layer {} fmt{}", idsets[*si], vis, fi);
            if !ctx.wants("tileset-ids", &case) {
                return;
            }
            let fmt = [Fmt::Rgba, Fmt::Gray, Fmt::Indexed(0)][*fi].clone();
            let mut f = gen::file(4, 2, &fmt, &[10, 20]);
            if *fi == 2 {
                f.frames[0].push(new_palette(0, pal_entries(8, 3)));
            }
            for (k, id) in idsets[*si].iter().enumerate() {
                f.frames[0].push(Body::Tileset(tileset(*id, 3, 2, 2, tile_pixels(&fmt, 3, 2, 2, 10 + 4 * k as u32, (1, 7)), &format!("ts{}", k))));
            }
            for (k, id) in idsets[*si].iter().enumerate() {
                let mut l = Layer::tilemap(&format!("m{}", k), *id);
                l.flags = if k == *vis { 3 } else { 2 };
                l.opacity = 255 - 30 * k as u8;
                f.frames[0].push(Body::Layer(l));
            }
            for k in 0..3u16 {
                f.frames[0].push(tm_cel(k, 0, 0, 255, 2, 1, vec![1 + (k as u32 % 2), 2]));
                f.frames[1].push(tm_cel(k, 2 * (k as i16 % 2), 0, 200, 1, 1, vec![1 + k as u32 % 2]));
            }
            conform(ctx, "tileset-ids", &case, &f, &want);
        });
    }
    // opaque cels with ONE non-opaque pixel, at the first / middle / each of the last 9 positions
    if ctx.wants_family("tail-pixels") {
        let shapes: [(u16, u16); 6] = [(9, 9), (13, 5), (67, 1), (10, 10), (8, 8), (3, 23)];
        let mut cases: Vec<(usize, usize, u8, u16)> = Vec::new();
        for sh in 0..shapes.len() {
            for pos in 0..11usize {
                for a in [0u8, 128] {
                    for mode in [0u16, 1] {
                        cases.push((sh, pos, a, mode));
                    }
                }
            }
        }
        ctx.family("tail-pixels", cases.len() as u64, "an opaque red backdrop under a canvas-covering cel (Normal / Multiply, both opacities 255) of 64..100 pixels whose pixels are all opaque except ONE with alpha 0 or 128 at the first, the middle or one of the last 9 positions; shapes whose pixel count is and is not a multiple of 8", true);
        cases.par_iter().for_each(|(sh, pos, a, mode)| {
            let (w, h) = shapes[*sh];
            let n = w as usize * h as usize;
            let case = || format!("{}x{} position#{} alpha={} mode={}", w, h, pos, a, mode);
            if !ctx.wants("tail-pixels", &case) {
                return;
            }
            let fmt = Fmt::Rgba;
            let mut f = gen::file(w, h, &fmt, &[10]);
            f.frames[0].push(Body::Layer(Layer::image("back")));
            let mut top = Layer::image("top");
            top.blend = *mode;
            f.frames[0].push(Body::Layer(top));
            f.frames[0].push(raw_cel(0, 0, 0, 255, w, h, [255u8, 0, 0, 255].iter().cycle().take(n * 4).copied().collect()));
            let mut px = opaque_pixels(&fmt, w as usize, h as usize, 3, (0, 0));
            let at = match *pos {
                0 => 0,
                1 => n / 2,
                p => n - 1 - (p - 2),
            };
            px[at * 4 + 3] = *a;
            f.frames[0].push(raw_cel(1, 0, 0, 255, w, h, px));
            conform(ctx, "tail-pixels", &case, &f, &want);
        });
    }
    // indexed sprites whose palette ids do not run from 0: one new-format chunk starting at `first`, or one legacy packet with a skip
    if ctx.wants_family("sparse-palette") {
        let mut cases: Vec<(u32, usize, usize, u16, usize)> = Vec::new();
        for first in [0u32, 1, 2, 5, 100, 248] {
            for n in [1usize, 2, 4, 6] {
                for form in [0usize, 1] {
                    for mode in [0u16, 1] {
                        for tsel in 0..3usize {
                            cases.push((first, n, form, mode, tsel));
                        }
                    }
                }
            }
        }
        ctx.family("sparse-palette", cases.len() as u64, "indexed 3x2 sprites whose palette has 1/2/4/6 entries with ids starting at 0/1/2/5/100/248 (a new-format chunk with that first index, or a legacy 0x0004 chunk whose only packet skips that many entries); two layers (Normal / Multiply above, layer opacity 200) whose cels use every palette id, the highest ones included; transparent index = lowest / highest / a middle id", true);
        cases.par_iter().for_each(|(first, n, form, mode, tsel)| {
            let case = || format!("first={} n={} form={} mode={} t#{}", first, n, form, mode, tsel);
            if !ctx.wants("sparse-palette", &case) {
                return;
            }
            let ids: Vec<u8> = (0..*n as u32).map(|k| (first + k) as u8).collect();
            let t = match *tsel {
                0 => ids[0],
                1 => ids[ids.len() - 1],
                _ => ids[ids.len() / 2],
            };
            let fmt = Fmt::Indexed(t);
            let mut f = gen::file(3, 2, &fmt, &[10]);
            if *form == 0 {
                f.frames[0].push(new_palette(*first, pal_entries(*n, 5)));
            } else {
                let colors: Vec<[u8; 3]> = (0..*n as u8).map(|k| [10 + 40 * k, 200 - 30 * k, 7 * k + 1]).collect();
                f.frames[0].push(Body::OldPalette04(old_palette(vec![(*first as u8, colors)])));
            }
            f.frames[0].push(Body::Layer(Layer::image("back")));
            let mut top = Layer::image("top");
            top.blend = *mode;
            top.opacity = 200;
            f.frames[0].push(Body::Layer(top));
            let back: Vec<u8> = (0..6).map(|k| ids[ids.len() - 1 - (k % ids.len())]).collect();
            let front: Vec<u8> = (0..6).map(|k| ids[(k + 1) % ids.len()]).collect();
            f.frames[0].push(raw_cel(0, 0, 0, 255, 3, 2, back));
            f.frames[0].push(zcel(1, 0, 0, 255, 3, 2, front, 6));
            conform(ctx, "sparse-palette", &case, &f, &want);
        });
    }
    // a tilemap layer with non-square tiles under a blended image layer
    if ctx.wants_family("tiles-under") {
        let tsz: [(u16, u16); 5] = [(2, 4), (1, 3), (4, 2), (3, 1), (2, 2)];
        let mut cases: Vec<(usize, u16, usize)> = Vec::new();
        for t in 0..tsz.len() {
            for mode in [0u16, 1, 2, 10, 16] {
                for fi in 0..3usize {
                    cases.push((t, mode, fi));
                }
            }
        }
        ctx.family("tiles-under", cases.len() as u64, "a tilemap layer of 2x2 tiles sized 2x4 / 1x3 / 4x2 / 3x1 / 2x2 under an image layer of 5 blend modes that covers the whole canvas (layer opacity 200), 3 pixel formats: every canvas pixel of the upper layer is blended against the tile pixel below", true);
        cases.par_iter().for_each(|(t, mode, fi)| {
            let (tw, th) = tsz[*t];
            let case = || format!("tile={}x{} mode={} fmt{}", tw, th, mode, fi);
            if !ctx.wants("tiles-under", &case) {
                return;
            }
            let fmt = [Fmt::Rgba, Fmt::Gray, Fmt::Indexed(0)][*fi].clone();
            let (cw, chh) = (tw * 2, th * 2);
            let mut f = gen::file(cw, chh, &fmt, &[10]);
            if *fi == 2 {
                f.frames[0].push(new_palette(0, pal_entries(8, 3)));
            }
            f.frames[0].push(Body::Tileset(tileset(1, 3, tw, th, tile_pixels(&fmt, 3, tw, th, 6, (1, 7)), "ts")));
            f.frames[0].push(Body::Layer(Layer::tilemap("m", 1)));
            let mut top = Layer::image("top");
            top.blend = *mode;
            top.opacity = 200;
            f.frames[0].push(Body::Layer(top));
            f.frames[0].push(tm_cel(0, 0, 0, 255, 2, 2, vec![1, 2, 2, 1]));
            f.frames[0].push(raw_cel(1, 0, 0, 255, cw, chh, pixels(&fmt, cw as usize, chh as usize, 4, (1, 7))));
            conform(ctx, "tiles-under", &case, &f, &want);
        });
    }
    nested(ctx, thorough);
    offsets(ctx, thorough);
    opacities(ctx);
    orders(ctx);
    links(ctx);
    ctx.assume("reference blend functions = C++ transcription of Aseprite's blend_funcs.cpp (validated against 39 GUI-rendered corpus images by `mc selftest`)");
    ctx.finish()
}

/// nested groups with overlapping, blended, semi-transparent cels: every forest of up to 5 (thorough 6)
/// layers x every visibility assignment x blend mode per leaf in {Normal, Multiply}
fn nested(ctx: &Ctx, thorough: bool) {
    let maxn = if thorough { 6 } else { 5 };
    let want = Want::all();
    for n in 2..=maxn {
        let fam = format!("nested-n{}", n);
        if !ctx.wants_family(&fam) {
            continue;
        }
        let fs = crate::props::c09::forests(n);
        let mut total = 0u64;
        for lv in &fs {
            let leaves = (0..n).filter(|i| !(i + 1 < n && lv[i + 1] > lv[*i])).count();
            total += (1u64 << n) * (1u64 << leaves);
        }
        ctx.family(&fam, total, &format!("all {} forests of {} layers (groups nested to any depth) x all visible-flag assignments x blend mode Normal/Multiply per leaf; every leaf holds a full-canvas semi-transparent cel with its own layer and cel opacity, so the composition order and the ancestors' visibility both show in every pixel", fs.len(), n), true);
        fs.par_iter().for_each(|lv| {
            let leaf_idx: Vec<usize> = (0..n).filter(|i| !(i + 1 < n && lv[i + 1] > lv[*i])).collect();
            for vis in 0..(1u32 << n) {
                for bl in 0..(1u32 << leaf_idx.len()) {
                    let case = || format!("{:?} vis={:0w$b} blend={:b}", lv, vis, bl, w = n);
                    if !ctx.wants(&fam, &case) {
                        continue;
                    }
                    let fmt = Fmt::Rgba;
                    let mut f = gen::file(CW, CH, &fmt, &[10]);
                    for i in 0..n {
                        let is_group = !leaf_idx.contains(&i);
                        let mut l = if is_group { Layer::group(&format!("g{}", i)) } else { Layer::image(&format!("l{}", i)) };
                        l.level = lv[i];
                        l.flags = if vis >> i & 1 == 1 { 3 } else { 2 };
                        l.opacity = 255 - 20 * i as u8;
                        if is_group {
                            l.blend = 9;
                        } else {
                            let k = leaf_idx.iter().position(|x| *x == i).unwrap();
                            l.blend = if bl >> k & 1 == 1 { 1 } else { 0 };
                        }
                        f.frames[0].push(Body::Layer(l));
                    }
                    for (k, i) in leaf_idx.iter().enumerate() {
                        f.frames[0].push(raw_cel(*i as u16, 0, 0, 250 - 30 * k as u8, CW, CH, pixels(&fmt, CW as usize, CH as usize, 40 + *i as u32, (0, 0))));
                    }
                    conform(ctx, &fam, &case, &f, &want);
                }
            }
        });
    }
}

/// (i) one layer, every small cel size at every offset around the canvas
pub fn offsets(ctx: &Ctx, thorough: bool) {
    let fam = "offsets";
    if !ctx.wants_family(fam) {
        return;
    }
    let fmt = Fmt::Rgba;
    // (canvas w, canvas h, cel w, cel h, x, y, format)
    let mut cases: Vec<(u16, u16, u16, u16, i16, i16, usize)> = Vec::new();
    let sizes: Vec<u16> = vec![1, 2, 3, 5];
    // landscape, portrait, narrow and a canvas wider than 256
    let canvases: Vec<(u16, u16)> = vec![(3, 2), (2, 4), (1, 3), (4, 1), (2, 7)];
    for fi in 0..if thorough { 3 } else { 1 } {
        for (cw, chh) in &canvases {
            for w in &sizes {
                for h in &sizes {
                    for x in -(*w as i16) - 1..=*cw as i16 + 1 {
                        for y in -(*h as i16) - 1..=*chh as i16 + 1 {
                            cases.push((*cw, *chh, *w, *h, x, y, fi));
                        }
                    }
                    for (x, y) in [(-32768i16, -32768i16), (32767, 32767), (-32768, 0), (0, 32767), (32767, -32768)] {
                        cases.push((*cw, *chh, *w, *h, x, y, fi));
                    }
                }
            }
        }
        for (w, h) in [(65535u16, 1u16), (1, 65535), (300, 200)] {
            for (x, y) in [(0i16, 0i16), (-1, -1), (-32768, 0), (32767, 1), (-32767, -32767), (1, -32768)] {
                cases.push((CW, CH, w, h, x, y, fi));
            }
        }
        // canvases beyond 256 pixels in one or both directions, cels around the far edges
        for (cw, chh) in [(300u16, 3u16), (3, 300), (260, 258), (65535, 1), (1, 65535)] {
            for (w, h) in [(1u16, 1u16), (2, 3), (5, 4)] {
                let far = |e: u16| -> Vec<i16> {
                    if e > 32767 {
                        vec![-1, 0, 255, 256, 32766, 32767]
                    } else {
                        vec![-1, 0, 254, 255, 256, 257, e as i16 - 2, e as i16 - 1, e as i16]
                    }
                };
                for x in far(cw) {
                    for y in far(chh) {
                        cases.push((cw, chh, w, h, x, y, fi));
                    }
                }
            }
        }
    }
    ctx.family(fam, cases.len() as u64, "single layer over a backdrop layer on canvases 3x2, 2x4, 1x3, 4x1, 2x7 (landscape and portrait): cel sizes {1,2,3,5}^2 at every offset in [-w-1,W+1]x[-h-1,H+1] plus the i16 extremes; 65535x1 / 1x65535 / 300x200 cels; canvases 300x3, 3x300, 260x258, 65535x1, 1x65535 with cels around x,y = 255/256 and the far edges (or the i16 limit); raw and compressed", true);
    let fmts = [Fmt::Rgba, Fmt::Gray, Fmt::Indexed(0)];
    let want = Want::all();
    cases.par_iter().for_each(|(cw, chh, w, h, x, y, fi)| {
        let case = || format!("fmt{} canvas={}x{} {}x{}@({},{})", fi, cw, chh, w, h, x, y);
        if !ctx.wants(fam, &case) {
            return;
        }
        let fmt = &fmts[*fi];
        let (cw, chh) = (*cw, *chh);
        let mut f = gen::file(cw, chh, fmt, &[10]);
        if *fi == 2 {
            f.frames[0].push(new_palette(0, pal_entries(16, 3)));
        }
        f.frames[0].push(Body::Layer(Layer::image("back")));
        let mut top = Layer::image("top");
        top.blend = 1;
        top.opacity = 200;
        f.frames[0].push(Body::Layer(top));
        f.frames[0].push(raw_cel(0, 0, 0, 255, cw, chh, pixels(fmt, cw as usize, chh as usize, 1, (1, 15))));
        let px = pixels(fmt, *w as usize, *h as usize, 2, (1, 15));
        if (*x as i32 + *y as i32) % 2 == 0 {
            f.frames[0].push(raw_cel(1, *x, *y, 180, *w, *h, px));
        } else {
            f.frames[0].push(zcel(1, *x, *y, 180, *w, *h, px, 6));
        }
        conform(ctx, fam, &case, &f, &want);
    });
    let _ = fmt;
    ctx.sample(json!({"family": fam, "case": "fmt0 canvas=2x4 2x3@(-1,1)"}));
}

/// (ii) all 256 x 256 (layer opacity, cel opacity) pairs, Normal and Multiply
fn opacities(ctx: &Ctx) {
    let fam = "opacity-pairs";
    if !ctx.wants_family(fam) {
        return;
    }
    let cases: Vec<(u8, u16)> = (0..=255u8).flat_map(|lo| [0u16, 1].into_iter().map(move |m| (lo, m))).collect();
    ctx.family(fam, 256 * 256 * 2, "1x1-per-pair sprite: all 65,536 (layer opacity, cel opacity) pairs for Normal and Multiply over an opaque-ish backdrop (one 256-frame sprite per layer opacity)", true);
    let fmt = Fmt::Rgba;
    let want = Want::all();
    cases.par_iter().for_each(|(lo, mode)| {
        let case = || format!("lo={} mode={}", lo, mode);
        if !ctx.wants(fam, &case) {
            return;
        }
        // 256 frames, frame k has cel opacity k
        let durations: Vec<u16> = (0..256).map(|_| 1).collect();
        let mut f = gen::file(1, 1, &fmt, &durations);
        f.frames[0].push(Body::Layer(Layer::image("back")));
        let mut top = Layer::image("top");
        top.blend = *mode;
        top.opacity = *lo;
        f.frames[0].push(Body::Layer(top));
        for k in 0..256usize {
            f.frames[k].push(raw_cel(0, 0, 0, 255, 1, 1, vec![200, 100, 50, 230]));
            f.frames[k].push(raw_cel(1, 0, 0, k as u8, 1, 1, vec![30, 180, 240, 251]));
        }
        conform(ctx, fam, &case, &f, &want);
        ctx.eval_n(255, 0);
    });
    ctx.sample(json!({"family": fam, "case": "lo=128 mode=1", "meaning": "256 frames; frame k composes the top cel with cel opacity k and layer opacity 128 in Multiply mode"}));
}

/// (iii) every storage order of the cel chunks of a frame
fn orders(ctx: &Ctx) {
    let fam = "cel-chunk-orders";
    if !ctx.wants_family(fam) {
        return;
    }
    let mut total = 0u64;
    let want = Want::all();
    for n in 1..=4usize {
        let perms = permutations(n);
        total += perms.len() as u64 * 2;
        for variant in 0..2 {
            perms.par_iter().for_each(|p| {
                let case = || format!("n={} variant={} order={:?}", n, variant, p);
                if !ctx.wants(fam, &case) {
                    return;
                }
                let mut v = vec![0usize; n * 8];
                for i in 0..n {
                    v[i * 8] = (i + variant) % 5; // blend modes differ per layer
                    v[i * 8 + 4] = if variant == 1 && i == 1 { 4 } else { 0 };
                    v[i * 8 + 7] = 1; // cel opacity 128
                }
                let mut f = stack_sprite(&v);
                let (cels, others): (Vec<Chunk>, Vec<Chunk>) = f.frames[0].chunks.drain(..).partition(|c| c.body.kind_name() == "cel");
                f.frames[0].chunks = others;
                for i in p {
                    f.frames[0].chunks.push(cels[*i].clone());
                }
                conform(ctx, fam, &case, &f, &want);
            });
        }
    }
    ctx.family(fam, total, "all n! storage orders of the n cel chunks of a frame, n = 1..4, two stack variants (distinct blend modes per layer)", true);
}

/// (iv) linked cels to every other frame
fn links(ctx: &Ctx) {
    let fam = "links";
    if !ctx.wants_family(fam) {
        return;
    }
    let mut cases = Vec::new();
    for nf in 2..=4u16 {
        for src in 0..nf {
            for dst in 0..nf {
                if src != dst {
                    for kind in 0..3 {
                        cases.push((nf, src, dst, kind));
                    }
                }
            }
        }
    }
    ctx.family(fam, cases.len() as u64, "F in 2..4 frames: a linked cel in every frame pointing to every other frame, target stored raw / compressed / (on a tilemap layer) as a tilemap cel; a second layer on top", true);
    let fmt = Fmt::Rgba;
    let want = Want::all();
    cases.par_iter().for_each(|(nf, src, dst, kind)| {
        let case = || format!("frames={} link {}->{} kind={}", nf, src, dst, kind);
        if !ctx.wants(fam, &case) {
            return;
        }
        let d: Vec<u16> = (0..*nf).map(|i| 10 + i).collect();
        let mut f = gen::file(CW, CH, &fmt, &d);
        if *kind == 2 {
            f.frames[0].push(Body::Tileset(tileset(0, 4, 1, 1, tile_pixels(&fmt, 4, 1, 1, 5, (0, 0)), "ts")));
            f.frames[0].push(Body::Layer(Layer::tilemap("lower", 0)));
        } else {
            f.frames[0].push(Body::Layer(Layer::image("lower")));
        }
        let mut top = Layer::image("top");
        top.blend = 2;
        f.frames[0].push(Body::Layer(top));
        let real = match kind {
            0 => raw_cel(0, 1, 0, 200, 2, 2, pixels(&fmt, 2, 2, 3, (0, 0))),
            1 => zcel(0, 1, 0, 200, 2, 2, pixels(&fmt, 2, 2, 3, (0, 0)), 6),
            _ => tm_cel(0, 1, 0, 200, 2, 2, vec![1, 2, 3, 0]),
        };
        f.frames[*dst as usize].push(real);
        f.frames[*src as usize].push(link_cel(0, -5, 9, [77u8, 0, 255][*src as usize % 3], *dst));
        for k in 0..*nf {
            f.frames[k as usize].push(raw_cel(1, 0, 0, 255, CW, CH, pixels(&fmt, CW as usize, CH as usize, 20 + k as u32, (0, 0))));
        }
        conform(ctx, fam, &case, &f, &want);
    });
    ctx.sample(json!({"family": fam, "case": "frames=3 link 2->0 kind=1"}));
}
