//! C14 — the result is independent of reader behaviour; I/O errors are returned.
//! Environment exploration: every `read()` call of the run is a choice point; all schedules
//! with at most d non-default answers are executed against the real loader.
use crate::common::*;
use crate::observe;
use asefile::{AsepriteFile, AsepriteParseError};
use mc_core::explore::*;
use mc_core::gen;
use mc_core::obs::Want;
use rayon::prelude::*;
use serde_json::json;
use std::error::Error;
use std::io::{self, BufReader, Cursor, ErrorKind, Read};
use std::os::unix::fs::OpenOptionsExt;
use std::panic::{catch_unwind, AssertUnwindSafe};
use std::sync::atomic::{AtomicU64, Ordering::Relaxed};

#[derive(Debug)]
struct Token(u64);
impl std::fmt::Display for Token {
    fn fmt(&self, f: &mut std::fmt::Formatter<'_>) -> std::fmt::Result {
        write!(f, "injected error token {}", self.0)
    }
}
impl Error for Token {}

pub const FAIL_KINDS: [ErrorKind; 8] = [ErrorKind::UnexpectedEof, ErrorKind::Other, ErrorKind::PermissionDenied, ErrorKind::ConnectionReset, ErrorKind::TimedOut, ErrorKind::WouldBlock, ErrorKind::BrokenPipe, ErrorKind::InvalidData];

#[derive(Clone, Copy, Debug, PartialEq, Eq, Hash)]
pub enum Ans {
    /// 0 = one byte, 1 = ceil(n/2), 2 = n-1
    Short(u8),
    Interrupted,
    Fail(u8),
}

#[derive(Clone, Copy, Debug, PartialEq, Eq)]
struct Call {
    buf: usize,
    remaining: usize,
}

struct Scripted<'a> {
    data: &'a [u8],
    pos: usize,
    /// deviations: (call index, answer), ascending by call index
    script: &'a [(usize, Ans)],
    calls: Vec<Call>,
    fail_executed: Option<(u8, u64)>,
    interrupts_in_a_row: u32,
}

fn short_len(n: usize, k: u8) -> Option<usize> {
    match k {
        0 if n >= 2 => Some(1),
        1 if n >= 4 => Some((n + 1) / 2),
        2 if n >= 3 => Some(n - 1),
        _ => None,
    }
}

impl<'a> Read for Scripted<'a> {
    fn read(&mut self, buf: &mut [u8]) -> io::Result<usize> {
        let idx = self.calls.len();
        let remaining = self.data.len() - self.pos;
        self.calls.push(Call { buf: buf.len(), remaining });
        let n = buf.len().min(remaining);
        let dev = self.script.iter().find(|(i, _)| *i == idx).map(|(_, a)| *a);
        let take = match dev {
            None => n,
            Some(Ans::Short(k)) => short_len(n, k).unwrap_or(n),
            Some(Ans::Interrupted) => {
                self.interrupts_in_a_row += 1;
                return Err(io::Error::new(ErrorKind::Interrupted, "injected transient interruption"));
            }
            Some(Ans::Fail(k)) => {
                let tok = 0xC14_0000 + idx as u64 * 16 + k as u64;
                self.fail_executed = Some((k, tok));
                return Err(io::Error::new(FAIL_KINDS[k as usize], Token(tok)));
            }
        };
        self.interrupts_in_a_row = 0;
        buf[..take].copy_from_slice(&self.data[self.pos..self.pos + take]);
        self.pos += take;
        Ok(take)
    }
}

enum Outcome {
    Ok(u64),
    Err(AsepriteParseError),
    Panic(String),
}

fn digest_of(f: &AsepriteFile, want: &Want) -> u64 {
    hash64(&observe::observe(f, want))
}

fn classify(r: std::thread::Result<asefile::Result<AsepriteFile>>, want: &Want) -> Outcome {
    match r {
        Ok(Ok(f)) => Outcome::Ok(digest_of(&f, want)),
        Ok(Err(e)) => Outcome::Err(e),
        Err(_) => Outcome::Panic(observe::take_panic()),
    }
}

/// check an error outcome against an injected failure
fn check_io_error(e: &AsepriteParseError, kind: ErrorKind, tok: u64) -> Result<(), String> {
    match e {
        AsepriteParseError::IoError(ioe) => {
            if ioe.kind() != kind {
                return Err(format!("IoError kind {:?}, injected {:?}", ioe.kind(), kind));
            }
            match ioe.get_ref().and_then(|r| r.downcast_ref::<Token>()) {
                Some(Token(t)) if *t == tok => {}
                other => return Err(format!("IoError does not carry the injected error (token {:?}, injected {})", other.map(|t| t.0), tok)),
            }
            match e.source().and_then(|s| s.downcast_ref::<io::Error>()) {
                Some(src) => match src.get_ref().and_then(|r| r.downcast_ref::<Token>()) {
                    Some(Token(t)) if *t == tok => Ok(()),
                    _ => Err("Error::source() is an io::Error but not the injected one".into()),
                },
                None => Err("Error::source() does not yield the io::Error".into()),
            }
        }
        other => Err(format!("error variant is not IoError: {}", other)),
    }
}

struct Target {
    name: String,
    bytes: Vec<u8>,
    end: usize,
    baseline: u64,
    want: Want,
}

/// The explorer replays prefixes and requires the call log of a replay to match, so a run must be a
/// function of the schedule alone.  If the library's read() pattern turns out to depend on what
/// earlier loads left behind on a pooled thread (detected below: two default runs, or a replayed
/// prefix, differ), FRESH is set and every schedule runs on a thread of its own from then on (slow:
/// a thread per run).  The dependence itself is not judged here; what a FAILED load leaves behind is
/// explored on purpose in `after-failure` below and in C16's cross-load family.
static FRESH: std::sync::atomic::AtomicBool = std::sync::atomic::AtomicBool::new(false);
static DIVERGED: std::sync::atomic::AtomicBool = std::sync::atomic::AtomicBool::new(false);

fn run_script(t: &Target, script: &[(usize, Ans)]) -> (Outcome, Vec<Call>, Option<(u8, u64)>) {
    if !FRESH.load(Relaxed) {
        let mut rd = Scripted { data: &t.bytes, pos: 0, script, calls: Vec::new(), fail_executed: None, interrupts_in_a_row: 0 };
        let r = catch_unwind(AssertUnwindSafe(|| AsepriteFile::read(&mut rd)));
        let out = classify(r, &t.want);
        return (out, rd.calls, rd.fail_executed);
    }
    std::thread::scope(|s| {
        s.spawn(|| {
            let mut rd = Scripted { data: &t.bytes, pos: 0, script, calls: Vec::new(), fail_executed: None, interrupts_in_a_row: 0 };
            let r = catch_unwind(AssertUnwindSafe(|| AsepriteFile::read(&mut rd)));
            let out = classify(r, &t.want);
            (out, rd.calls, rd.fail_executed)
        })
        .join()
        .expect("run_script thread")
    })
}

fn judge(ctx: &Ctx, fam: &str, t: &Target, script: &[(usize, Ans)], out: &Outcome, failed: Option<(u8, u64)>) {
    let case = || format!("{} {:?}", t.name, script);
    if !ctx.wants(fam, &case) {
        return;
    }
    let viol = |sig: String, detail: String| {
        ctx.violation(Violation { family: fam.into(), case: case(), sig, detail, bytes: Some(t.bytes.clone()), extra: json!({"schedule": format!("{:?}", script)}) });
    };
    match (out, failed) {
        (Outcome::Panic(m), _) => viol(format!("panic:{}", sig_of(m)), format!("panic under reader schedule: {}", m)),
        (Outcome::Ok(d), None) => {
            ctx.outcome(hash64(&("ok", d)));
            if *d != t.baseline {
                viol("result-differs".into(), "loaded sprite differs from the one loaded from the in-memory slice".into());
            }
        }
        (Outcome::Err(e), None) => viol(format!("spurious-error:{}", err_variant(e)), format!("no hard error was injected but load failed: {}", e)),
        (Outcome::Ok(_), Some(_)) => viol("error-swallowed".into(), "a hard I/O error was reported by the reader before all needed data was delivered, but load returned a sprite".into()),
        (Outcome::Err(e), Some((k, tok))) => {
            ctx.outcome(hash64(&("ioerr", k)));
            if let Err(m) = check_io_error(e, FAIL_KINDS[k as usize], tok) {
                viol(format!("wrong-error:{}", sig_of(&m)), m);
            }
        }
    }
}

fn explore(ctx: &Ctx, fam: &str, t: &Target, prefix: &[(usize, Ans)], parent_calls: Option<&[Call]>, bound: usize, nsched: &AtomicU64, npoints: &AtomicU64) {
    let (out, calls, failed) = run_script(t, prefix);
    nsched.fetch_add(1, Relaxed);
    npoints.fetch_add(calls.len() as u64, Relaxed);
    // a replayed prefix must not diverge from the run it was derived from
    if let (Some(pc), Some((last, _))) = (parent_calls, prefix.last()) {
        let upto = (*last + 1).min(pc.len()).min(calls.len());
        if pc[..upto] != calls[..upto] {
            if FRESH.load(Relaxed) {
                eprintln!("machinery error: replay of prefix {:?} diverged", prefix);
                std::process::exit(2);
            }
            // pooled-thread state reaches the read() pattern: this family is redone on fresh threads
            DIVERGED.store(true, Relaxed);
            return;
        }
    }
    ctx.eval(calls.len() as u64);
    judge(ctx, fam, t, prefix, &out, failed);
    if prefix.len() >= bound || failed.is_some() {
        return;
    }
    let start = prefix.last().map_or(0, |(i, _)| *i + 1);
    for i in start..calls.len() {
        let c = calls[i];
        let n = c.buf.min(c.remaining);
        let mut alts: Vec<Ans> = Vec::new();
        for k in 0..3 {
            if short_len(n, k).is_some() {
                alts.push(Ans::Short(k));
            }
        }
        // the deviation bound (<= 3) also bounds consecutive interruptions: the space is acyclic
        alts.push(Ans::Interrupted);
        for k in 0..FAIL_KINDS.len() as u8 {
            alts.push(Ans::Fail(k));
        }
        for a in alts {
            let mut p2 = prefix.to_vec();
            p2.push((i, a));
            explore(ctx, fam, t, &p2, Some(&calls), bound, nsched, npoints);
        }
    }
}

/// reader whose `at`-th delivering call (usize::MAX: every call) first answers Interrupted `m` times
struct Burst<'a> {
    data: &'a [u8],
    pos: usize,
    at: usize,
    m: u32,
    delivered: usize,
    pending: u32,
}
impl<'a> Read for Burst<'a> {
    fn read(&mut self, buf: &mut [u8]) -> io::Result<usize> {
        if (self.at == usize::MAX || self.delivered == self.at) && self.pending < self.m {
            self.pending += 1;
            return Err(io::Error::new(ErrorKind::Interrupted, "injected transient interruption"));
        }
        self.pending = 0;
        self.delivered += 1;
        let n = buf.len().min(self.data.len() - self.pos);
        buf[..n].copy_from_slice(&self.data[self.pos..self.pos + n]);
        self.pos += n;
        Ok(n)
    }
}

/// reader that delivers at most `m` bytes per call, optionally failing once `fail_at` bytes were delivered
struct Chunked<'a> {
    data: &'a [u8],
    pos: usize,
    m: usize,
    fail_at: Option<(usize, u8, u64)>,
    failed: bool,
}
impl<'a> Read for Chunked<'a> {
    fn read(&mut self, buf: &mut [u8]) -> io::Result<usize> {
        if buf.is_empty() {
            return Ok(0);
        }
        let mut limit = self.data.len();
        if let Some((p, k, tok)) = self.fail_at {
            if self.pos >= p {
                self.failed = true;
                return Err(io::Error::new(FAIL_KINDS[k as usize], Token(tok)));
            }
            limit = p;
        }
        let n = buf.len().min(self.m).min(limit - self.pos);
        buf[..n].copy_from_slice(&self.data[self.pos..self.pos + n]);
        self.pos += n;
        Ok(n)
    }
}


/// extended failures: every stable io::ErrorKind except the transient Interrupted, each built
/// in three ways (custom error payload, message payload, bare kind), and raw OS errors
#[derive(Clone, Copy, Debug, PartialEq, Eq, Hash)]
pub enum Shape {
    Token,
    Message,
    Bare,
    Os(i32),
}

pub fn ext_fails() -> Vec<(ErrorKind, Shape)> {
    use ErrorKind::*;
    let kinds = [
        NotFound, PermissionDenied, ConnectionRefused, ConnectionReset, HostUnreachable, NetworkUnreachable, ConnectionAborted, NotConnected, AddrInUse, AddrNotAvailable, NetworkDown, BrokenPipe, AlreadyExists, WouldBlock, NotADirectory, IsADirectory, DirectoryNotEmpty, ReadOnlyFilesystem, StaleNetworkFileHandle, InvalidInput, InvalidData, TimedOut, WriteZero, StorageFull, NotSeekable, QuotaExceeded, FileTooLarge, ResourceBusy, ExecutableFileBusy, Deadlock, CrossesDevices, TooManyLinks, InvalidFilename, ArgumentListTooLong, Unsupported, UnexpectedEof, OutOfMemory, Other,
    ];
    let mut v = Vec::new();
    for k in kinds {
        for s in [Shape::Token, Shape::Message, Shape::Bare] {
            v.push((k, s));
        }
    }
    // EPERM ENOENT EIO ENXIO EBADF EAGAIN ENOMEM EACCES EFAULT EINVAL ENOSPC EPIPE ECONNRESET ETIMEDOUT and an unknown code
    for code in [1, 2, 5, 6, 9, 11, 12, 13, 14, 22, 28, 32, 104, 110, 4095] {
        v.push((Other, Shape::Os(code)));
    }
    v
}

fn make_ext(kind: ErrorKind, shape: Shape, tok: u64) -> io::Error {
    match shape {
        Shape::Token => io::Error::new(kind, Token(tok)),
        Shape::Message => io::Error::new(kind, format!("injected failure message {}", tok)),
        Shape::Bare => kind.into(),
        Shape::Os(c) => io::Error::from_raw_os_error(c),
    }
}

/// the returned error must be IoError holding the injected io::Error itself (same kind, same
/// OS code, same payload), also reachable through Error::source()
fn check_ext(e: &AsepriteParseError, kind: ErrorKind, shape: Shape, tok: u64) -> Result<(), String> {
    let want = make_ext(kind, shape, tok);
    let same = |got: &io::Error| -> Result<(), String> {
        if got.kind() != want.kind() {
            return Err(format!("kind {:?}, injected {:?}", got.kind(), want.kind()));
        }
        if got.raw_os_error() != want.raw_os_error() {
            return Err(format!("raw_os_error {:?}, injected {:?}", got.raw_os_error(), want.raw_os_error()));
        }
        let (a, b) = (got.get_ref().map(|r| r.to_string()), want.get_ref().map(|r| r.to_string()));
        if a != b {
            return Err(format!("payload {:?}, injected {:?}", a, b));
        }
        if shape == Shape::Token && got.get_ref().and_then(|r| r.downcast_ref::<Token>()).map(|t| t.0) != Some(tok) {
            return Err("payload is not the injected error object".into());
        }
        Ok(())
    };
    match e {
        AsepriteParseError::IoError(ioe) => {
            same(ioe).map_err(|m| format!("IoError holds another error: {}", m))?;
            match e.source().and_then(|s| s.downcast_ref::<io::Error>()) {
                Some(src) => same(src).map_err(|m| format!("Error::source() is another io::Error: {}", m)),
                None => Err("Error::source() does not yield the io::Error".into()),
            }
        }
        other => Err(format!("error variant is not IoError: {}", other)),
    }
}

/// reader that fails at one read() call with a prepared error
struct FailAtCall<'a> {
    data: &'a [u8],
    pos: usize,
    calls: usize,
    at: usize,
    kind: ErrorKind,
    shape: Shape,
    tok: u64,
    failed: bool,
}
impl<'a> Read for FailAtCall<'a> {
    fn read(&mut self, buf: &mut [u8]) -> io::Result<usize> {
        let idx = self.calls;
        self.calls += 1;
        if idx == self.at {
            self.failed = true;
            return Err(make_ext(self.kind, self.shape, self.tok));
        }
        let n = buf.len().min(self.data.len() - self.pos);
        buf[..n].copy_from_slice(&self.data[self.pos..self.pos + n]);
        self.pos += n;
        Ok(n)
    }
}

pub fn run(ctx: &Ctx) -> i32 {
    let thorough = ctx.tier == Tier::Thorough;
    let mut want = Want::all();
    want.pal_probes = (0..40).collect();
    want.name_probes = vec!["".into(), "c1".into(), "t1".into()];
    want.id_probes = vec![0, 1, 2, 3, 7];
    let mut targets: Vec<Target> = Vec::new();
    let mut add = |name: &str, bytes: Vec<u8>, end: usize| {
        let Loaded::Ok(f) = load(&bytes) else {
            eprintln!("machinery error: {} does not load", name);
            std::process::exit(2);
        };
        let baseline = digest_of(&f, &want);
        targets.push(Target { name: name.to_string(), bytes, end, baseline, want: want.clone() });
    };
    for (n, f) in gen::bases().into_iter().take(3) {
        let e = f.encode_full(false);
        add(n, e.bytes, e.end_of_last_frame);
    }
    {
        // trailing bytes after every chunk's payload (also after the zlib streams of compressed cels and tilesets)
        let mut f = gen::b1();
        for fr in f.frames.iter_mut() {
            for ch in fr.chunks.iter_mut() {
                ch.trailing = vec![0, 0, 0, 0];
            }
        }
        let e = f.encode_full(false);
        add("b1-trailing", e.bytes, e.end_of_last_frame);
        let mut f = gen::b3();
        for fr in f.frames.iter_mut() {
            for ch in fr.chunks.iter_mut() {
                ch.trailing = vec![0xEE; 3];
            }
        }
        let e = f.encode_full(false);
        add("b3-trailing", e.bytes, e.end_of_last_frame);
    }
    {
        // every payload kind larger than 64 KiB: large chunks are read in many read() calls
        let e = gen::big().encode_full(false);
        add("big", e.bytes, e.end_of_last_frame);
    }
    for n in ["basic-16x16", "tilemap_indexed", "user_data"] {
        if let Ok(b) = std::fs::read(format!("/repo/tests/data/{}.aseprite", n)) {
            let end = mc_core::ase::walk_sizes(&b).unwrap_or(b.len());
            add(n, b, end);
        }
    }

    // (1) deviation-bounded schedules
    let bound = if thorough { 3 } else { 2 };
    for (ti, t) in targets.iter().enumerate() {
        let b = if t.name == "big" { 1 } else if ti < 3 || !thorough { bound } else { bound - 1 };
        let fam = format!("schedules-{}-d{}", t.name, b);
        if !ctx.wants_family(&fam) {
            continue;
        }
        // determinism: the default schedule replayed twice gives identical call logs
        let (mut o1, mut c1, _) = run_script(t, &[]);
        let (_o2, mut c2, _) = run_script(t, &[]);
        if c1 != c2 && !FRESH.load(Relaxed) {
            FRESH.store(true, Relaxed);
            ctx.note("the library's read() call pattern depends on earlier loads on the same thread: every schedule is run on a thread of its own");
            (o1, c1, _) = run_script(t, &[]);
            (_, c2, _) = run_script(t, &[]);
        }
        if c1 != c2 || !matches!(o1, Outcome::Ok(_)) {
            eprintln!("machinery error: default schedule is not deterministic / does not load");
            return 2;
        }
        let nsched = AtomicU64::new(0);
        let npoints = AtomicU64::new(0);
        // parallel over the first deviation
        let (_, calls, _) = run_script(t, &[]);
        nsched.fetch_add(1, Relaxed);
        judge(ctx, &fam, t, &[], &o1, None);
        let mut firsts: Vec<(usize, Ans)> = Vec::new();
        for (i, c) in calls.iter().enumerate() {
            let n = c.buf.min(c.remaining);
            for k in 0..3 {
                if short_len(n, k).is_some() {
                    firsts.push((i, Ans::Short(k)));
                }
            }
            firsts.push((i, Ans::Interrupted));
            for k in 0..FAIL_KINDS.len() as u8 {
                firsts.push((i, Ans::Fail(k)));
            }
        }
        firsts.par_iter().for_each(|d| {
            explore(ctx, &fam, t, &[*d], Some(&calls), b, &nsched, &npoints);
        });
        if DIVERGED.swap(false, Relaxed) && !FRESH.load(Relaxed) {
            // redo this family with every schedule on a thread of its own
            FRESH.store(true, Relaxed);
            ctx.note("a replayed prefix diverged on a pooled thread: schedules are run on threads of their own from here on");
            let (_, calls, _) = run_script(t, &[]);
            firsts.par_iter().for_each(|d| {
                explore(ctx, &fam, t, &[*d], Some(&calls), b, &nsched, &npoints);
            });
        }
        ctx.family(&fam, nsched.load(Relaxed), &format!("{} ({} bytes, {} read() calls on the default schedule): all schedules with <= {} non-default answers over every read() call (short read of 1 / ceil(n/2) / n-1 bytes, transient Interrupted (max 3 in a row), hard error of 8 kinds); {} choice points visited", t.name, t.bytes.len(), calls.len(), b, npoints.load(Relaxed)), true);
        if ti == 0 {
            ctx.sample(json!({"family": fam, "schedule": "[(3, Short(0)), (17, Fail(4))]", "meaning": "the 4th read() call returns one byte only; the 18th read() call fails with TimedOut; expected: Err(IoError) carrying exactly that error"}));
        }
    }

    // (2) uniform maximum read sizes, with wrappers
    if ctx.wants_family("uniform-read-sizes") {
        let mut ms: Vec<usize> = (1..=64).collect();
        ms.extend([127, 128, 255, 256, 4095, 4096]);
        let wrappers = ["none", "bufreader1", "bufreader2", "bufreader3", "bufreader7", "bufreader8192"];
        let mut n = 0u64;
        for t in &targets {
            let cases: Vec<(usize, usize)> = ms.iter().flat_map(|m| (0..wrappers.len()).map(move |w| (*m, w))).collect();
            n += cases.len() as u64;
            cases.par_iter().for_each(|(m, w)| {
                let case = || format!("{} max_read={} wrapper={}", t.name, m, wrappers[*w]);
                if !ctx.wants("uniform-read-sizes", &case) {
                    return;
                }
                let rd = Chunked { data: &t.bytes, pos: 0, m: *m, fail_at: None, failed: false };
                let r = catch_unwind(AssertUnwindSafe(|| match w {
                    0 => AsepriteFile::read(rd),
                    1 => AsepriteFile::read(BufReader::with_capacity(1, rd)),
                    2 => AsepriteFile::read(BufReader::with_capacity(2, rd)),
                    3 => AsepriteFile::read(BufReader::with_capacity(3, rd)),
                    4 => AsepriteFile::read(BufReader::with_capacity(7, rd)),
                    _ => AsepriteFile::read(BufReader::with_capacity(8192, rd)),
                }));
                ctx.eval((t.bytes.len() / m + 1) as u64);
                match classify(r, &t.want) {
                    Outcome::Ok(d) if d == t.baseline => ctx.outcome(hash64(&("ok", d))),
                    Outcome::Ok(_) => ctx.violation(Violation { family: "uniform-read-sizes".into(), case: case(), sig: "result-differs".into(), detail: "sprite differs from the in-memory load".into(), bytes: Some(t.bytes.clone()), extra: json!({}) }),
                    Outcome::Err(e) => ctx.violation(Violation { family: "uniform-read-sizes".into(), case: case(), sig: format!("spurious-error:{}", err_variant(&e)), detail: format!("{}", e), bytes: Some(t.bytes.clone()), extra: json!({}) }),
                    Outcome::Panic(m) => ctx.violation(Violation { family: "uniform-read-sizes".into(), case: case(), sig: format!("panic:{}", sig_of(&m)), detail: m, bytes: Some(t.bytes.clone()), extra: json!({}) }),
                }
            });
        }
        ctx.family("uniform-read-sizes", n, "every maximum read size m in {1..64,127,128,255,256,4095,4096} x wrapper {none, BufReader capacity 1/2/3/7/8192} on every target file", true);
    }

    // (2b) bursts of transient interruptions: the call that would deliver data answers Interrupted m times first
    if ctx.wants_family("interrupt-bursts") {
        const BURSTS: [u32; 8] = [2, 4, 8, 9, 10, 16, 100, 1000];
        let mut n = 0u64;
        for t in &targets {
            let nc = run_script(t, &[]).1.len();
            // (delivering call index or usize::MAX = every call, burst length)
            let mut cases: Vec<(usize, u32)> = (0..nc).flat_map(|i| BURSTS.iter().map(move |m| (i, *m))).collect();
            cases.extend([1u32, 2, 9, 10].iter().map(|m| (usize::MAX, *m)));
            n += cases.len() as u64;
            cases.par_iter().for_each(|(at, m)| {
                let case = || if *at == usize::MAX { format!("{} every call interrupted x{}", t.name, m) } else { format!("{} call#{} interrupted x{}", t.name, at, m) };
                if !ctx.wants("interrupt-bursts", &case) {
                    return;
                }
                let rd = Burst { data: &t.bytes, pos: 0, at: *at, m: *m, delivered: 0, pending: 0 };
                let r = catch_unwind(AssertUnwindSafe(|| AsepriteFile::read(rd)));
                ctx.eval(nc as u64 + *m as u64);
                let v = |sig: String, detail: String| ctx.violation(Violation { family: "interrupt-bursts".into(), case: case(), sig, detail, bytes: Some(t.bytes.clone()), extra: json!({}) });
                match classify(r, &t.want) {
                    Outcome::Ok(d) if d == t.baseline => ctx.outcome(hash64(&("ok", d))),
                    Outcome::Ok(_) => v("result-differs".into(), "sprite differs from the in-memory load".into()),
                    Outcome::Err(e) => v(format!("spurious-error:{}", err_variant(&e)), format!("only transient interruptions were injected but load failed: {}", e)),
                    Outcome::Panic(m) => v(format!("panic:{}", sig_of(&m)), m),
                }
            });
        }
        ctx.family("interrupt-bursts", n, "every read() call of the default schedule, on every target file, answers ErrorKind::Interrupted 2 / 4 / 8 / 9 / 10 / 16 / 100 / 1000 times in a row before it delivers its data; and every call does so 1 / 2 / 9 / 10 times; the load must return the in-memory sprite", true);
    }

    // (3) other reader types: Cursor<Vec<u8>>, &[u8], file-backed
    if ctx.wants_family("reader-types") {
        ctx.family("reader-types", targets.len() as u64 * 6 + 16, "Cursor<Vec<u8>>, &[u8], &mut &[u8] and AsepriteFile::read_file on a temporary file, on a named FIFO and on an anonymous pipe through /proc/self/fd; read_file on four equivalent encodings of each base (3 bytes after the last frame, header size field 0 / 2^32-1 / length+1)", true);
        for t in &targets {
            for k in 0..4 {
                let case = || format!("{} reader={}", t.name, ["cursor", "slice", "mut-slice", "read_file"][k]);
                if !ctx.wants("reader-types", &case) {
                    continue;
                }
                let r = catch_unwind(AssertUnwindSafe(|| match k {
                    0 => AsepriteFile::read(Cursor::new(t.bytes.clone())),
                    1 => AsepriteFile::read(&t.bytes[..]),
                    2 => {
                        let mut s = &t.bytes[..];
                        AsepriteFile::read(&mut s)
                    }
                    _ => {
                        let p = std::env::temp_dir().join(format!("mc-c14-{}-{}.aseprite", std::process::id(), t.name));
                        std::fs::write(&p, &t.bytes).unwrap();
                        let r = AsepriteFile::read_file(&p);
                        let _ = std::fs::remove_file(&p);
                        r
                    }
                }));
                ctx.eval(1);
                match classify(r, &t.want) {
                    Outcome::Ok(d) if d == t.baseline => ctx.outcome(hash64(&("ok", k, d))),
                    Outcome::Ok(_) => ctx.violation(Violation { family: "reader-types".into(), case: case(), sig: "result-differs".into(), detail: "sprite differs".into(), bytes: Some(t.bytes.clone()), extra: json!({}) }),
                    Outcome::Err(e) => ctx.violation(Violation { family: "reader-types".into(), case: case(), sig: format!("spurious-error:{}", err_variant(&e)), detail: format!("{}", e), bytes: Some(t.bytes.clone()), extra: json!({}) }),
                    Outcome::Panic(m) => ctx.violation(Violation { family: "reader-types".into(), case: case(), sig: format!("panic:{}", sig_of(&m)), detail: m, bytes: Some(t.bytes.clone()), extra: json!({}) }),
                }
            }
        }
        // read_file on paths that are not regular files: a named FIFO, and an anonymous pipe reached through
        // /proc/self/fd (their metadata length is 0; the bytes arrive as a stream)
        for t in targets.iter().filter(|t| t.bytes.len() < 60_000) {
            for kind in ["fifo", "proc-fd-pipe"] {
                let case = || format!("{} read_file through a {}", t.name, kind);
                if !ctx.wants("reader-types", &case) {
                    continue;
                }
                static SEQ: AtomicU64 = AtomicU64::new(0);
                let r: Option<std::thread::Result<asefile::Result<AsepriteFile>>> = if kind == "fifo" {
                    let p = std::env::temp_dir().join(format!("mc-c14-fifo-{}-{}", std::process::id(), SEQ.fetch_add(1, Relaxed)));
                    let cp = std::ffi::CString::new(p.to_string_lossy().as_bytes()).unwrap();
                    if unsafe { libc::mkfifo(cp.as_ptr(), 0o600) } != 0 {
                        ctx.note("mkfifo failed: FIFO reader not exercised");
                        None
                    } else {
                        let (bytes, p2) = (t.bytes.clone(), p.clone());
                        // the writer blocks in open() until the library opens the FIFO for reading
                        let w = std::thread::spawn(move || {
                            use std::io::Write;
                            if let Ok(mut f) = std::fs::OpenOptions::new().write(true).open(&p2) {
                                let _ = f.write_all(&bytes);
                            }
                        });
                        let r = catch_unwind(AssertUnwindSafe(|| AsepriteFile::read_file(&p)));
                        // if the library never opened it, release the writer
                        let _ = std::fs::OpenOptions::new().read(true).custom_flags(libc::O_NONBLOCK).open(&p);
                        let _ = w.join();
                        let _ = std::fs::remove_file(&p);
                        Some(r)
                    }
                } else {
                    let mut fds = [0i32; 2];
                    if unsafe { libc::pipe(fds.as_mut_ptr()) } != 0 {
                        None
                    } else {
                        use std::os::unix::io::FromRawFd;
                        let mut wr = unsafe { std::fs::File::from_raw_fd(fds[1]) };
                        let bytes = t.bytes.clone();
                        let w = std::thread::spawn(move || {
                            use std::io::Write;
                            let _ = wr.write_all(&bytes);
                        });
                        let p = std::path::PathBuf::from(format!("/proc/self/fd/{}", fds[0]));
                        let r = catch_unwind(AssertUnwindSafe(|| AsepriteFile::read_file(&p)));
                        unsafe { libc::close(fds[0]) };
                        let _ = w.join();
                        Some(r)
                    }
                };
                let Some(r) = r else { continue };
                ctx.eval(1);
                match classify(r, &t.want) {
                    Outcome::Ok(d) if d == t.baseline => ctx.outcome(hash64(&("ok", kind, d))),
                    Outcome::Ok(_) => ctx.violation(Violation { family: "reader-types".into(), case: case(), sig: "result-differs".into(), detail: "sprite differs".into(), bytes: Some(t.bytes.clone()), extra: json!({}) }),
                    Outcome::Err(e) => ctx.violation(Violation { family: "reader-types".into(), case: case(), sig: format!("spurious-error:{}", err_variant(&e)), detail: format!("the path delivers the complete file as a stream, but read_file fails: {}", e), bytes: Some(t.bytes.clone()), extra: json!({}) }),
                    Outcome::Panic(m) => ctx.violation(Violation { family: "reader-types".into(), case: case(), sig: format!("panic:{}", sig_of(&m)), detail: m, bytes: Some(t.bytes.clone()), extra: json!({}) }),
                }
            }
        }
        // read_file on encodings whose header size field disagrees with the real length / with bytes after the last frame
        for (bn, base) in gen::bases() {
            for (vi, variant) in ["tail-3", "size-0", "size-max", "size+1"].iter().enumerate() {
                let case = || format!("{} read_file {}", bn, variant);
                if !ctx.wants("reader-types", &case) {
                    continue;
                }
                let mut f = base.clone();
                match vi {
                    0 => f.tail = vec![1, 2, 3],
                    1 => f.header.file_size = Some(0),
                    2 => f.header.file_size = Some(u32::MAX),
                    _ => f.header.file_size = Some(f.encode().len() as u32 + 1),
                }
                let canon = match load(&base.encode()) {
                    Loaded::Ok(x) => digest_of(&x, &want),
                    _ => continue,
                };
                let bytes = f.encode();
                let p = std::env::temp_dir().join(format!("mc-c14-{}-{}-{}.aseprite", std::process::id(), bn, vi));
                std::fs::write(&p, &bytes).unwrap();
                let r = catch_unwind(AssertUnwindSafe(|| AsepriteFile::read_file(&p)));
                let _ = std::fs::remove_file(&p);
                ctx.eval(1);
                match classify(r, &want) {
                    Outcome::Ok(d) if d == canon => ctx.outcome(hash64(&("ok-file", bn, vi))),
                    Outcome::Ok(_) => ctx.violation(Violation { family: "reader-types".into(), case: case(), sig: "result-differs".into(), detail: "sprite differs".into(), bytes: Some(bytes), extra: json!({}) }),
                    Outcome::Err(e) => ctx.violation(Violation { family: "reader-types".into(), case: case(), sig: format!("spurious-error:{}", err_variant(&e)), detail: format!("{}", e), bytes: Some(bytes), extra: json!({}) }),
                    Outcome::Panic(m) => ctx.violation(Violation { family: "reader-types".into(), case: case(), sig: format!("panic:{}", sig_of(&m)), detail: m, bytes: Some(bytes), extra: json!({}) }),
                }
            }
        }
        // read_file on a missing path: IoError(NotFound)
        let case = || "read_file missing path".to_string();
        if ctx.wants("reader-types", &case) {
            match AsepriteFile::read_file(std::path::Path::new("/nonexistent/mc-c14/none.aseprite")) {
                Err(AsepriteParseError::IoError(e)) if e.kind() == ErrorKind::NotFound => {}
                other => ctx.violation(Violation { family: "reader-types".into(), case: case(), sig: "missing-file".into(), detail: format!("expected IoError(NotFound), got {:?}", other.map(|_| "a sprite")), bytes: None, extra: json!({}) }),
            }
        }
    }

    // (4) a hard error of each kind at every byte offset before the end of the last frame
    if ctx.wants_family("error-at-offset") {
        let mut n = 0u64;
        for t in &targets {
            // (max bytes per read, wrapper); the 400 KB target uses larger pieces than 1 and 3 bytes
            let modes: Vec<(usize, usize)> = if t.end > 100_000 { vec![(usize::MAX, 0), (4093, 0), (usize::MAX, 5), (997, 4)] } else { vec![(usize::MAX, 0), (1, 0), (usize::MAX, 5), (3, 4)] };
            n += (if t.end > 100_000 { (0..t.end).filter(|p| p % 4096 < 20 || p % 4096 > 4076 || p % 509 == 0).count() } else { t.end }) as u64 * FAIL_KINDS.len() as u64 * modes.len() as u64;
            // the 400 KB target: every offset within 40 bytes of a 4 KiB boundary and every 509th byte
            let offsets: Vec<usize> = if t.end > 100_000 { (0..t.end).filter(|p| p % 4096 < 20 || p % 4096 > 4076 || p % 509 == 0).collect() } else { (0..t.end).collect() };
            offsets.into_par_iter().for_each(|p| {
                for k in 0..FAIL_KINDS.len() as u8 {
                    for (mi, (m, w)) in modes.iter().enumerate() {
                        let case = || format!("{} error {:?} at offset {} delivery#{}", t.name, FAIL_KINDS[k as usize], p, mi);
                        if !ctx.wants("error-at-offset", &case) {
                            continue;
                        }
                        let tok = 0xE000_0000 + p as u64 * 16 + k as u64;
                        let rd = Chunked { data: &t.bytes, pos: 0, m: *m, fail_at: Some((p, k, tok)), failed: false };
                        let r = catch_unwind(AssertUnwindSafe(|| match w {
                            0 => AsepriteFile::read(rd),
                            4 => AsepriteFile::read(BufReader::with_capacity(7, rd)),
                            _ => AsepriteFile::read(BufReader::with_capacity(8192, rd)),
                        }));
                        ctx.eval(1);
                        let viol = |sig: String, detail: String| ctx.violation(Violation { family: "error-at-offset".into(), case: case(), sig, detail, bytes: Some(t.bytes.clone()), extra: json!({}) });
                        match classify(r, &t.want) {
                            Outcome::Ok(_) => viol("error-swallowed".into(), format!("reader failed at byte {} (< end of last frame {}), but load returned a sprite", p, t.end)),
                            Outcome::Panic(m) => viol(format!("panic:{}", sig_of(&m)), m),
                            Outcome::Err(e) => {
                                ctx.outcome(hash64(&("ioerr", k, mi)));
                                if let Err(m) = check_io_error(&e, FAIL_KINDS[k as usize], tok) {
                                    viol(format!("wrong-error:{}", sig_of(&m)), m);
                                }
                            }
                        }
                    }
                }
            });
        }
        ctx.family("error-at-offset", n, "a hard error of each of 8 kinds after exactly p bytes, for every p < end of last frame, bytes before p delivered fully / one at a time / through BufReader(8192) / 3 at a time through BufReader(7)", true);
        ctx.sample(json!({"family": "error-at-offset", "case": "b1 error ConnectionReset at offset 300 delivery#1", "meaning": "bytes 0..299 delivered one per read() call, then read() fails with ConnectionReset carrying a unique token; load must return IoError with that very error as source()"}));
    }

    // (5) every kind and construction of io::Error at every read() call of the default schedule
    if ctx.wants_family("error-shapes") {
        let fails = ext_fails();
        let mut n = 0u64;
        for t in targets.iter().filter(|t| t.bytes.len() < 100_000) {
            let (_, calls, _) = run_script(t, &[]);
            // read() calls issued before the end of the last frame has been delivered
            let ncalls = calls.iter().take_while(|c| t.bytes.len() - c.remaining < t.end).count();
            n += (ncalls * fails.len()) as u64;
            (0..ncalls).into_par_iter().for_each(|ci| {
                for (fi, (kind, shape)) in fails.iter().enumerate() {
                    let case = || format!("{} read() call #{} fails with {:?} built as {:?}", t.name, ci, kind, shape);
                    if !ctx.wants("error-shapes", &case) {
                        continue;
                    }
                    let tok = 0x5A00_0000 + ci as u64 * 256 + fi as u64;
                    let mut rd = FailAtCall { data: &t.bytes, pos: 0, calls: 0, at: ci, kind: *kind, shape: *shape, tok, failed: false };
                    let r = catch_unwind(AssertUnwindSafe(|| AsepriteFile::read(&mut rd)));
                    ctx.eval(1);
                    let viol = |sig: String, detail: String| ctx.violation(Violation { family: "error-shapes".into(), case: case(), sig, detail, bytes: Some(t.bytes.clone()), extra: json!({}) });
                    if !rd.failed {
                        eprintln!("machinery error: read() call #{} of {} was not reached", ci, t.name);
                        std::process::exit(2);
                    }
                    match classify(r, &t.want) {
                        Outcome::Ok(_) => viol("error-swallowed".into(), format!("read() call #{} failed before the end of the last frame was delivered, but load returned a sprite", ci)),
                        Outcome::Panic(m) => viol(format!("panic:{}", sig_of(&m)), m),
                        Outcome::Err(e) => {
                            ctx.outcome(hash64(&("ioerr", fi)));
                            if let Err(m) = check_ext(&e, *kind, *shape, tok) {
                                viol(format!("wrong-error:{:?}:{}", shape, sig_of(&m)), format!("injected {:?} built as {:?}: {}", kind, shape, m));
                            }
                        }
                    }
                }
            });
        }
        ctx.family("error-shapes", n, &format!("every read() call of the default schedule (before the end of the last frame) fails with each of {} errors: all 38 stable io::ErrorKind values other than Interrupted, each built with a custom error payload / a message payload / no payload, and 15 raw OS error codes; load must return IoError holding exactly that error (kind, OS code, payload), also through source()", fails.len()), true);
    }

    // (6) what a failed load leaves behind: on one fresh thread, a load that fails at read() call k
    // (hard error, or end of input), then a clean load of the same bytes and of another target
    if ctx.wants_family("after-failure") {
        let mut n = 0u64;
        let small: Vec<&Target> = targets.iter().filter(|t| t.bytes.len() < 100_000).collect();
        for (ti, t) in small.iter().enumerate() {
            let (_, calls, _) = run_script(t, &[]);
            let ncalls = calls.iter().take_while(|c| t.bytes.len() - c.remaining < t.end).count();
            let other = small[(ti + 1) % small.len()];
            n += ncalls as u64 * 2;
            (0..ncalls * 2).into_par_iter().for_each(|k| {
                let (ci, how) = (k / 2, k % 2);
                let case = || format!("{} fails at read() call #{} ({}), then clean loads of {} and {}", t.name, ci, if how == 0 { "hard error" } else { "end of input" }, t.name, other.name);
                if !ctx.wants("after-failure", &case) {
                    return;
                }
                let res: Result<(), (String, String)> = std::thread::scope(|s| {
                    s.spawn(|| {
                        // the failing load
                        let r = catch_unwind(AssertUnwindSafe(|| {
                            if how == 0 {
                                let mut rd = FailAtCall { data: &t.bytes, pos: 0, calls: 0, at: ci, kind: ErrorKind::Other, shape: Shape::Token, tok: 77, failed: false };
                                AsepriteFile::read(&mut rd).map(|_| ())
                            } else {
                                // end of input exactly where that call would have started
                                let cut = t.bytes.len() - calls[ci].remaining;
                                AsepriteFile::read(&t.bytes[..cut]).map(|_| ())
                            }
                        }));
                        match r {
                            Ok(Err(_)) => {}
                            Ok(Ok(())) => return Err(("error-swallowed".to_string(), "the failing load returned a sprite".to_string())),
                            Err(_) => return Err((format!("panic:{}", sig_of(&observe::take_panic())), "the failing load panicked".to_string())),
                        }
                        // clean loads on the same thread
                        for (tt, label) in [(*t, "the same file"), (other, "another file")] {
                            let r = catch_unwind(AssertUnwindSafe(|| AsepriteFile::read(&tt.bytes[..])));
                            match classify(r, &tt.want) {
                                Outcome::Ok(d) if d == tt.baseline => {}
                                Outcome::Ok(_) => return Err(("result-differs-after-failed-load".to_string(), format!("a clean load of {} after the failed load gives a different sprite", label))),
                                Outcome::Err(e) => return Err((format!("spurious-error-after-failed-load:{}", err_variant(&e)), format!("a clean load of {} after the failed load fails: {}", label, e))),
                                Outcome::Panic(m) => return Err((format!("panic:{}", sig_of(&m)), format!("a clean load of {} after the failed load panics: {}", label, m))),
                            }
                        }
                        Ok(())
                    })
                    .join()
                    .expect("after-failure thread")
                });
                ctx.eval(3);
                ctx.outcome(hash64(&("after-failure", how, res.is_ok())));
                if let Err((sig, detail)) = res {
                    ctx.violation(Violation { family: "after-failure".into(), case: case(), sig, detail, bytes: Some(t.bytes.clone()), extra: json!({}) });
                }
            });
        }
        ctx.family("after-failure", n, "on a thread of its own: a load that fails at read() call k (hard I/O error / end of input), for every k before the end of the last frame of every small target, followed on the same thread by a clean load of the same bytes and of another target; both must give their baseline sprite", true);
    }
    ctx.note("arbitrary partitions beyond uniform sizes and <= d deviations are not covered (2^(len-1) partitions)");
    ctx.finish()
}
