//! C06 — cel pixels decode correctly for RGBA, grayscale and indexed colour.
use crate::common::*;
use mc_core::ase::*;
use mc_core::explore::*;
use mc_core::gen::{self, *};
use mc_core::obs::Want;
use mc_core::sem::Fmt;
use rayon::prelude::*;
use serde_json::json;

fn full_palette(salt: u32) -> Vec<PalEntry> {
    // 256 entries, distinct RGB, alphas spanning 0..255 (entry i has alpha (i*37+salt) mod 256)
    (0..256u32).map(|i| pal_entry([i as u8, (255 - i) as u8, (i * 7 + 3) as u8, (i * 37 + salt) as u8], None)).collect()
}

pub fn run(ctx: &Ctx) -> i32 {
    let thorough = ctx.tier == Tier::Thorough;
    let want = Want { tilemaps: false, tileset_images: false, ..Want::all() };
    let offs: [(i16, i16); 3] = [(0, 0), (-1, 1), (3, -2)];
    let blends: Vec<u16> = (0..19).collect();
    // opacity pairs: A6^2 (quick); thorough adds A12^2 and the two full axes (o,255), (255,o)
    let mut op_pairs: Vec<(u8, u8)> = A6.iter().flat_map(|a| A6.iter().map(move |b| (*a, *b))).collect();
    if thorough {
        op_pairs.extend(A12.iter().flat_map(|a| A12.iter().map(move |b| (*a, *b))));
        op_pairs.extend((0..=255u8).flat_map(|o| [(o, 255u8), (255u8, o)]));
        op_pairs.sort();
        op_pairs.dedup();
    }

    // RGBA: every byte value in every channel slot
    if ctx.wants_family("rgba-bytes") {
        let mut cases = Vec::new();
        for st in 0..2 {
            for (lo, co) in &op_pairs {
                for b in &blends {
                    for o in offs {
                        cases.push((st, *lo, *co, *b, o));
                    }
                }
            }
        }
        ctx.family("rgba-bytes", cases.len() as u64, "RGBA 256x4 cel in which channel slot c of row c sweeps 0..255 while the other slots hold distinct constants; x storage {raw,zlib} x (layer,cel) opacity pairs (A6^2; thorough: + A12^2 + both full axes) x all 19 blend modes x 3 offsets", true);
        let fmt = Fmt::Rgba;
        let mut data = Vec::with_capacity(256 * 4 * 4);
        for row in 0..4usize {
            for v in 0..256usize {
                let mut p = [17u8, 101, 203, 250];
                p[row] = v as u8;
                data.extend_from_slice(&p);
            }
        }
        cases.par_iter().for_each(|(st, lo, co, b, o)| {
            let case = || format!("st={} lo={} co={} blend={} off={:?}", st, lo, co, b, o);
            if !ctx.wants("rgba-bytes", &case) {
                return;
            }
            let mut f = gen::file(256, 4, &fmt, &[10]);
            let mut l = Layer::image("l");
            l.opacity = *lo;
            l.blend = *b;
            f.frames[0].push(Body::Layer(l));
            f.frames[0].push(if *st == 0 { raw_cel(0, o.0, o.1, *co, 256, 4, data.clone()) } else { zcel(0, o.0, o.1, *co, 256, 4, data.clone(), 6) });
            conform(ctx, "rgba-bytes", &case, &f, &want);
        });
        ctx.sample(json!({"family": "rgba-bytes", "case": "st=1 lo=128 co=254 blend=9 off=(-1, 1)"}));
    }

    // Grayscale: all 65,536 (value, alpha) pairs in one cel
    if ctx.wants_family("gray-pairs") {
        let mut cases = Vec::new();
        let ops: Vec<(u8, u8)> = if thorough { op_pairs.clone() } else { vec![(255, 255), (128, 255), (255, 127), (1, 254), (0, 255), (254, 1), (127, 128), (254, 254)] };
        for st in 0..2 {
            for (lo, co) in &ops {
                for o in offs {
                    cases.push((st, *lo, *co, o));
                }
            }
        }
        ctx.family("gray-pairs", cases.len() as u64, "grayscale 256x256 cel holding all 65,536 (value, alpha) pairs x storage x opacity pairs x 3 offsets", true);
        let fmt = Fmt::Gray;
        let mut data = Vec::with_capacity(65536 * 2);
        for v in 0..256u32 {
            for a in 0..256u32 {
                data.push(v as u8);
                data.push(a as u8);
            }
        }
        cases.par_iter().for_each(|(st, lo, co, o)| {
            let case = || format!("st={} lo={} co={} off={:?}", st, lo, co, o);
            if !ctx.wants("gray-pairs", &case) {
                return;
            }
            let mut f = gen::file(256, 256, &fmt, &[10]);
            let mut l = Layer::image("l");
            l.opacity = *lo;
            f.frames[0].push(Body::Layer(l));
            f.frames[0].push(if *st == 0 { raw_cel(0, o.0, o.1, *co, 256, 256, data.clone()) } else { zcel(0, o.0, o.1, *co, 256, 256, data.clone(), 1) });
            conform(ctx, "gray-pairs", &case, &f, &want);
        });
    }

    // Indexed: all 256 indices x full palette x every transparent index x background flag
    if ctx.wants_family("indexed") {
        let mut cases = Vec::new();
        let ops: Vec<(u8, u8)> = if thorough { op_pairs.clone() } else { A6.iter().flat_map(|a| A6.iter().map(move |b| (*a, *b))).collect() };
        for t in 0..=255u8 {
            for bg in 0..2 {
                for st in 0..2 {
                    for (lo, co) in &ops {
                        for (oi, o) in offs.iter().enumerate() {
                            if !thorough && oi > 0 && t % 4 != 3 {
                                continue;
                            }
                            cases.push((t, bg, st, *lo, *co, *o));
                        }
                    }
                }
            }
        }
        ctx.family("indexed", cases.len() as u64, "indexed 16x16 cel holding all 256 indices against a full 256-entry palette (distinct RGB, alphas spanning 0..255) x every transparent index 0..255 x background flag x storage x opacity pairs x offsets", true);
        let data: Vec<u8> = (0..=255u8).collect();
        cases.par_iter().for_each(|(t, bg, st, lo, co, o)| {
            let case = || format!("t={} bg={} st={} lo={} co={} off={:?}", t, bg, st, lo, co, o);
            if !ctx.wants("indexed", &case) {
                return;
            }
            let fmt = Fmt::Indexed(*t);
            let mut f = gen::file(16, 16, &fmt, &[10]);
            f.frames[0].push(new_palette(0, full_palette(*t as u32)));
            let mut l = Layer::image("l");
            l.opacity = *lo;
            if *bg == 1 {
                l.flags = 1 | 2 | 8;
            }
            f.frames[0].push(Body::Layer(l));
            f.frames[0].push(if *st == 0 { raw_cel(0, o.0, o.1, *co, 16, 16, data.clone()) } else { zcel(0, o.0, o.1, *co, 16, 16, data.clone(), 6) });
            conform(ctx, "indexed", &case, &f, &want);
        });
        ctx.sample(json!({"family": "indexed", "case": "t=3 bg=1 st=0 lo=255 co=255 off=(0, 0)", "meaning": "transparent index 3 on a background layer: index 3 must keep its palette alpha"}));
    }

    // Indexed with sparse palettes containing exactly the used indices
    if ctx.wants_family("indexed-sparse") {
        let mut cases = Vec::new();
        for first in [0u32, 1, 5, 200, 250] {
            for len in [1usize, 2, 6] {
                for t in [0u8, 1, 5, 6, 200, 255] {
                    for bg in 0..2 {
                        cases.push((first, len, t, bg));
                    }
                }
            }
        }
        ctx.family("indexed-sparse", cases.len() as u64, "sparse palettes [first, first+len) with pixels using exactly those indices x transparent index inside/outside the range x background flag", true);
        cases.par_iter().for_each(|(first, len, t, bg)| {
            let case = || format!("first={} len={} t={} bg={}", first, len, t, bg);
            if !ctx.wants("indexed-sparse", &case) {
                return;
            }
            let fmt = Fmt::Indexed(*t);
            let mut f = gen::file(3, 2, &fmt, &[10]);
            f.frames[0].push(new_palette(*first, pal_entries(*len, 4)));
            let mut l = Layer::image("l");
            if *bg == 1 {
                l.flags = 1 | 2 | 8;
            }
            f.frames[0].push(Body::Layer(l));
            let data: Vec<u8> = (0..6).map(|i| (*first as usize + i % len) as u8).collect();
            f.frames[0].push(raw_cel(0, 0, 0, 255, 3, 2, data));
            conform(ctx, "indexed-sparse", &case, &f, &want);
        });
    }

    // palettes in which two entries hold the same four bytes: transparency goes by index, never by colour
    if ctx.wants_family("duplicate-colours") {
        let mut cases = Vec::new();
        for i in 0..4usize {
            for j in 0..4usize {
                if i == j {
                    continue;
                }
                for t in 0..5u8 {
                    for bg in 0..2 {
                        for alpha in [255u8, 128, 0] {
                            cases.push((i, j, t, bg, alpha));
                        }
                    }
                }
            }
        }
        ctx.family("duplicate-colours", cases.len() as u64, "indexed 3x2 sprites with a 5-entry palette in which entry j repeats the four bytes of entry i (all ordered pairs of 0..3, shared alpha 255 / 128 / 0), every transparent index 0..4, background flag 0/1; the cel uses every palette id", true);
        cases.par_iter().for_each(|(i, j, t, bg, alpha)| {
            let case = || format!("i={} j={} t={} bg={} alpha={}", i, j, t, bg, alpha);
            if !ctx.wants("duplicate-colours", &case) {
                return;
            }
            let fmt = Fmt::Indexed(*t);
            let mut f = gen::file(3, 2, &fmt, &[10]);
            let mut pal = pal_entries(5, 2);
            pal[*i].rgba[3] = *alpha;
            pal[*j].rgba = pal[*i].rgba;
            f.frames[0].push(new_palette(0, pal));
            let mut l = Layer::image("l");
            if *bg == 1 {
                l.flags = 1 | 2 | 8;
            }
            f.frames[0].push(Body::Layer(l));
            f.frames[0].push(raw_cel(0, 0, 0, 255, 3, 2, vec![0, 1, 2, 3, 4, *j as u8]));
            conform(ctx, "duplicate-colours", &case, &f, &want);
        });
    }

    // Absent cels and links: every subset of present cells, every (src,dst) link
    // all 65,536 (layer opacity, cel opacity) pairs: the cel image's alpha is scaled by the rounded product
    if ctx.wants_family("opacity-pairs") {
        ctx.family("opacity-pairs", 65536, "all 65,536 (layer opacity, cel opacity) pairs on a 3x1 RGBA cel with alphas 255, 128 and 1: cel image and frame image compared with the model (alpha = MUL_UN8(a, MUL_UN8(layer, cel)))", true);
        (0..65536u32).into_par_iter().for_each(|k| {
            let (lo, co) = ((k >> 8) as u8, k as u8);
            let case = || format!("layer={} cel={}", lo, co);
            if !ctx.wants("opacity-pairs", &case) {
                return;
            }
            let fmt = Fmt::Rgba;
            let mut f = gen::file(3, 1, &fmt, &[10]);
            let mut l = Layer::image("l");
            l.opacity = lo;
            f.frames[0].push(Body::Layer(l));
            f.frames[0].push(raw_cel(0, 0, 0, co, 3, 1, vec![200, 100, 50, 255, 10, 20, 30, 128, 90, 80, 70, 1]));
            conform(ctx, "opacity-pairs", &case, &f, &want);
        });
    }
    // incompressible cels around the 32 KiB / 64 KiB marks, raw and compressed
    if ctx.wants_family("medium-noise") {
        let sides: [u16; 9] = [63, 64, 65, 90, 91, 100, 127, 128, 129];
        let mut cases: Vec<(usize, u16, u8)> = Vec::new();
        for fi in 0..3usize {
            for s in sides {
                for st in 0..4u8 {
                    cases.push((fi, s, st));
                }
            }
        }
        ctx.family("medium-noise", cases.len() as u64, "square noise cels of side 63..129 (decoded sizes around 32 KiB and 64 KiB in every format; zlib streams longer than 32 KiB) in 3 pixel formats, stored raw / zlib level 0 / 1 / 9, on a 130x130 canvas at offset (1,1): cel and frame images compared with the model", true);
        cases.par_iter().for_each(|(fi, side, st)| {
            let case = || format!("fmt{} side={} storage={}", fi, side, ["raw", "zlib0", "zlib1", "zlib9"][*st as usize]);
            if !ctx.wants("medium-noise", &case) {
                return;
            }
            let fmt = [Fmt::Rgba, Fmt::Gray, Fmt::Indexed(0)][*fi].clone();
            let mut f = gen::file(130, 130, &fmt, &[10]);
            if *fi == 2 {
                f.frames[0].push(new_palette(0, pal_entries(256, 3)));
            }
            f.frames[0].push(Body::Layer(Layer::image("l")));
            let n = *side as usize * *side as usize * fmt.bpp();
            let data = gen::noise(n, *side as u32 + *fi as u32);
            f.frames[0].push(match st {
                0 => raw_cel(0, 1, 1, 255, *side, *side, data),
                1 => zcel(0, 1, 1, 255, *side, *side, data, 0),
                2 => zcel(0, 1, 1, 255, *side, *side, data, 1),
                _ => zcel(0, 1, 1, 255, *side, *side, data, 9),
            });
            conform(ctx, "medium-noise", &case, &f, &want);
        });
    }
    // cel chunks of a frame stored in every order (each carries its own layer index)
    if ctx.wants_family("cel-chunk-order") {
        let perms = permutations(4);
        ctx.family("cel-chunk-order", perms.len() as u64 * 3, "4 layers x 2 frames: frame 0 holds a cel on every layer, frame 1 links to them; the cel chunks of both frames stored in every one of the 24 orders; 3 pixel formats; emptiness, offsets and images of all 8 cels compared with the model", true);
        perms.par_iter().for_each(|p| {
            for fi in 0..3usize {
                let case = || format!("order={:?} fmt{}", p, fi);
                if !ctx.wants("cel-chunk-order", &case) {
                    continue;
                }
                let fmt = [Fmt::Rgba, Fmt::Gray, Fmt::Indexed(0)][fi].clone();
                let mut f = gen::file(4, 4, &fmt, &[10, 20]);
                if fi == 2 {
                    f.frames[0].push(new_palette(0, pal_entries(8, 3)));
                }
                for l in 0..4 {
                    f.frames[0].push(Body::Layer(Layer::image(&format!("l{}", l))));
                }
                for l in p {
                    let l = *l as u16;
                    f.frames[0].push(raw_cel(l, l as i16 - 1, 2 - l as i16, 255 - 20 * l as u8, 2, 2, pixels(&fmt, 2, 2, l as u32 + 3, (0, 7))));
                    f.frames[1].push(link_cel(l, 0, 0, 255, 0));
                }
                conform(ctx, "cel-chunk-order", &case, &f, &want);
            }
        });
    }
    if ctx.wants_family("absent") {
        let cases: Vec<u32> = (0..64).collect();
        ctx.family("absent", 64 * 3, "2 frames x 3 layers: every subset of the 6 cells present (3 formats); absent cells must report empty, offset (0,0) and a transparent image", true);
        let fmts = [Fmt::Rgba, Fmt::Gray, Fmt::Indexed(0)];
        cases.par_iter().for_each(|m| {
            for (fi, fmt) in fmts.iter().enumerate() {
                let case = || format!("fmt{} present={:06b}", fi, m);
                if !ctx.wants("absent", &case) {
                    continue;
                }
                let mut f = gen::file(3, 2, fmt, &[10, 20]);
                if fi == 2 {
                    f.frames[0].push(new_palette(0, pal_entries(8, 2)));
                }
                for l in 0..3 {
                    f.frames[0].push(Body::Layer(Layer::image(&format!("l{}", l))));
                }
                for fr in 0..2usize {
                    for l in 0..3u16 {
                        if m >> (fr * 3 + l as usize) & 1 == 1 {
                            f.frames[fr].push(raw_cel(l, 1 + l as i16, -(fr as i16), 200 + l as u8, 2, 2, pixels(fmt, 2, 2, (fr * 3) as u32 + l as u32, (1, 7))));
                        }
                    }
                }
                conform(ctx, "absent", &case, &f, &want);
            }
        });
    }
    // clipping of cel images on landscape / portrait / large canvases (shared with C02)
    crate::props::c02::offsets(ctx, thorough);
    if ctx.wants_family("links") {
        let mut cases = Vec::new();
        for fi in 0..3usize {
            for nf in 2..=4u16 {
                for src in 0..nf {
                    for dst in 0..nf {
                        if src != dst {
                            for st in 0..2 {
                                for own in 0..4usize {
                                    cases.push((fi, nf, src, dst, st, own));
                                }
                            }
                        }
                    }
                }
            }
        }
        ctx.family("links", cases.len() as u64, "every (source frame, target frame) pair for 2..4 frames, 3 formats, target raw/compressed; the linked cel's image must equal the target cel's image; the link chunk carries x/y/opacity values of its own from {(-3,2,41),(0,0,0),(32767,-32768,255),(1,-1,1)} which must not matter", true);
        let fmts = [Fmt::Rgba, Fmt::Gray, Fmt::Indexed(2)];
        cases.par_iter().for_each(|(fi, nf, src, dst, st, own)| {
            let case = || format!("fmt{} frames={} {}->{} st={} own={}", fi, nf, src, dst, st, own);
            if !ctx.wants("links", &case) {
                return;
            }
            let fmt = &fmts[*fi];
            let d: Vec<u16> = (0..*nf).collect();
            let mut f = gen::file(4, 3, fmt, &d);
            if *fi == 2 {
                f.frames[0].push(new_palette(0, pal_entries(8, 2)));
            }
            let mut l = Layer::image("l");
            l.opacity = 222;
            f.frames[0].push(Body::Layer(l));
            let px = pixels(fmt, 3, 2, 9, (0, 7));
            f.frames[*dst as usize].push(if *st == 0 { raw_cel(0, 1, -1, 199, 3, 2, px) } else { zcel(0, 1, -1, 199, 3, 2, px, 9) });
            // the link chunk's own offset / opacity fields must not influence the rendering
            let (ox, oy, oo) = [(-3i16, 2i16, 41u8), (0, 0, 0), (32767, -32768, 255), (1, -1, 1)][*own];
            f.frames[*src as usize].push(link_cel(0, ox, oy, oo, *dst));
            conform(ctx, "links", &case, &f, &want);
        });
    }
    ctx.finish()
}
