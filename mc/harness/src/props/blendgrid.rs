//! Shared enumeration for C03 / C17: grids of (backdrop, source, opacity) rendered through
//! two-layer sprites and the public API.
use crate::common::*;
use mc_core::ase::*;
use mc_core::blend;
use mc_core::explore::*;
use mc_core::gen;
use mc_core::sem::Fmt;

pub struct Spec {
    pub w: u16,
    pub h: u16,
    pub b: Vec<u32>,
    pub s: Vec<u32>,
    pub lo: u8,
    pub co: u8,
    /// render the source through a tilemap layer (one 1x1 tile per source pixel) instead of an image layer
    pub via_tilemap: bool,
    /// flag word of the source layer (3 = visible + editable)
    pub flags: u16,
    /// bit 0: the backdrop cel is one pixel larger than the canvas on the top and left and sits
    /// at (-1,-1); bit 1: the same for the source cel; bit 2: both also overhang by two pixels
    /// on the bottom and right.  The on-canvas pixels are the same in every case.
    pub pad: u8,
    /// the file header's flag word (bit 0 = "layer opacity valid" in Aseprite; not part of the composition the properties define)
    pub hflags: u32,
}

pub fn sprite(mode: u16, sp: &Spec) -> Vec<u8> {
    let fmt = Fmt::Rgba;
    let mut f = gen::file(sp.w, sp.h, &fmt, &[1]);
    f.header.flags = sp.hflags;
    f.frames[0].push(Body::Layer(Layer::image("backdrop")));
    let mut top = Layer::image("source");
    top.blend = mode;
    top.opacity = sp.lo;
    top.flags = sp.flags;
    f.frames[0].push(Body::Layer(top));
    let bb: Vec<u8> = sp.b.iter().flat_map(|p| p.to_le_bytes()).collect();
    let sb: Vec<u8> = sp.s.iter().flat_map(|p| p.to_le_bytes()).collect();
    // a cel that overhangs the canvas: junk pixels outside, the given pixels on the canvas
    let padded = |px: &[u8]| -> (i16, u16, u16, Vec<u8>) {
        let far = if sp.pad & 4 != 0 { 2usize } else { 0 };
        let (w, h) = (sp.w as usize, sp.h as usize);
        let (pw, ph) = (w + 1 + far, h + 1 + far);
        let mut out = vec![0u8; pw * ph * 4];
        for y in 0..ph {
            for x in 0..pw {
                let o = (y * pw + x) * 4;
                if x >= 1 && y >= 1 && x <= w && y <= h {
                    let i = ((y - 1) * w + (x - 1)) * 4;
                    out[o..o + 4].copy_from_slice(&px[i..i + 4]);
                } else {
                    out[o..o + 4].copy_from_slice(&[(x * 37 + 11) as u8, (y * 91 + 3) as u8, 0x5A, 200 + ((x + y) % 56) as u8]);
                }
            }
        }
        (-1, pw as u16, ph as u16, out)
    };
    if sp.pad & 1 != 0 {
        let (o, pw, ph, data) = padded(&bb);
        f.frames[0].push(gen::raw_cel(0, o, o, 255, pw, ph, data));
    } else {
        f.frames[0].push(gen::raw_cel(0, 0, 0, 255, sp.w, sp.h, bb));
    }
    if sp.via_tilemap {
        // tile i is the 1x1 tile holding source pixel i; the map lists the tiles in order
        let n = sp.s.len() as u32;
        let mut ts = gen::tileset(7, n, 1, 1, sb, "sources");
        ts.z = Zlib::Level(1);
        f.frames[0].chunks.insert(0, Chunk::new(Body::Tileset(ts)));
        if let Body::Layer(l) = &mut f.frames[0].chunks[2].body {
            l.ty = 2;
            l.tileset = 7;
        }
        f.frames[0].push(gen::tm_cel(1, 0, 0, sp.co, sp.w, sp.h, (0..n).collect()));
    } else if sp.pad & 2 != 0 {
        let (o, pw, ph, data) = padded(&sb);
        f.frames[0].push(gen::raw_cel(1, o, o, sp.co, pw, ph, data));
    } else {
        f.frames[0].push(gen::raw_cel(1, 0, 0, sp.co, sp.w, sp.h, sb));
    }
    f.encode()
}

/// Render through the public API. Err(message) on load error or any panic.
pub fn render(mode: u16, sp: &Spec) -> Result<Vec<u32>, (String, Vec<u8>)> {
    let bytes = sprite(mode, sp);
    match load(&bytes) {
        Loaded::Ok(f) => {
            let mut p = Vec::new();
            // small sprites: the source cel's own image is requested first (a cel image never depends on
            // the blend mode, and asking for it must not change what the frame looks like afterwards)
            if sp.b.len() <= 72 * 72 {
                let _ = crate::observe::guarded(&mut p, || "cel(0,1).image".into(), || f.cel(0, 1).image());
                if !p.is_empty() {
                    return Err((format!("cel image panic: {}", p[0].1), bytes));
                }
            }
            let img = crate::observe::guarded(&mut p, || "frame(0).image".into(), || f.frame(0).image());
            match img {
                Some(i) => {
                    if i.dimensions() != (sp.w as u32, sp.h as u32) {
                        return Err((format!("dimensions {:?}", i.dimensions()), bytes));
                    }
                    Ok(i.into_raw().chunks_exact(4).map(|c| u32::from_le_bytes([c[0], c[1], c[2], c[3]])).collect())
                }
                None => Err((format!("render panic: {}", p[0].1), bytes)),
            }
        }
        Loaded::Err(e) => Err((format!("load error: {}", e), bytes)),
        Loaded::Panic(m) => Err((format!("load panic: {}", m), bytes)),
    }
}

#[inline]
pub fn px(r: u8, g: u8, b: u8, a: u8) -> u32 {
    u32::from_le_bytes([r, g, b, a])
}

/// Separable-channel grid: pixel i carries the (Bc,Sc) pair i in the red slot and two
/// different bijective re-indexings of it in green and blue.
pub fn channel_grid(ba: u8, sa: u8) -> (Vec<u32>, Vec<u32>) {
    let mut b = Vec::with_capacity(65536);
    let mut s = Vec::with_capacity(65536);
    for i in 0..65536u32 {
        let j = (40503 * i) & 0xFFFF;
        let k = i ^ 0xAAAA;
        b.push(px((i >> 8) as u8, (j >> 8) as u8, (k >> 8) as u8, ba));
        s.push(px(i as u8, j as u8, k as u8, sa));
    }
    (b, s)
}

/// (Bc,Sc) in A12^2 x (Ba,Sa) in A6^2, same three-slot re-indexing: 5184 pixels (72x72)
pub fn small_grid() -> (Vec<u32>, Vec<u32>) {
    let mut b = Vec::new();
    let mut s = Vec::new();
    let pairs: Vec<(u8, u8)> = A12.iter().flat_map(|x| A12.iter().map(move |y| (*x, *y))).collect();
    for (i, (bc, sc)) in pairs.iter().enumerate() {
        let (bg, sg) = pairs[(i * 37 + 5) % pairs.len()];
        let (bb, sb) = pairs[(i * 101 + 77) % pairs.len()];
        for ba in A6 {
            for sa in A6 {
                b.push(px(*bc, bg, bb, ba));
                s.push(px(*sc, sg, sb, sa));
            }
        }
    }
    (b, s)
}

/// B.rgb, S.rgb over lattice^3 each, for the given alpha pairs
pub fn lattice_grid(levels: &[u8], alphas: &[(u8, u8)]) -> (Vec<u32>, Vec<u32>) {
    let mut cols = Vec::new();
    for r in levels {
        for g in levels {
            for bl in levels {
                cols.push((*r, *g, *bl));
            }
        }
    }
    let mut b = Vec::new();
    let mut s = Vec::new();
    for (ba, sa) in alphas {
        for bc in &cols {
            for sc in &cols {
                b.push(px(bc.0, bc.1, bc.2, *ba));
                s.push(px(sc.0, sc.1, sc.2, *sa));
            }
        }
    }
    (b, s)
}

pub fn shape(n: usize) -> (u16, u16) {
    // a non-square canvas holding exactly n pixels when possible
    let mut w = (n as f64).sqrt() as usize;
    while w > 1 && n % w != 0 {
        w -= 1;
    }
    ((n / w) as u16, w as u16)
}

pub fn opacity_pairs_quick() -> Vec<(u8, u8)> {
    let mut v: Vec<(u8, u8)> = Vec::new();
    for o in 0..=255u8 {
        v.push((o, 255));
        v.push((255, o));
    }
    for a in A6 {
        for b in A6 {
            v.push((a, b));
        }
    }
    v.sort();
    v.dedup();
    v
}

pub fn describe_px(mode: u16, b: u32, s: u32, lo: u8, co: u8) -> String {
    format!("mode={}({}) backdrop={:?} source={:?} layer_opacity={} cel_opacity={}", mode, blend::MODE_NAMES[mode as usize], b.to_le_bytes(), s.to_le_bytes(), lo, co)
}

/// The enumerated families. Each item is (family, index, builder). `modes` says which
/// blend modes the family is run for.
pub struct Family {
    pub name: &'static str,
    pub what: String,
    pub n: usize,
    pub modes: Vec<u16>,
    pub build: Box<dyn Fn(usize) -> Spec + Sync + Send>,
}

pub fn families(tier: Tier) -> Vec<Family> {
    let all: Vec<u16> = (0..19).collect();
    let separable: Vec<u16> = (0..19).filter(|m| blend::is_separable(*m as usize)).collect();
    let hsl: Vec<u16> = vec![12, 13, 14, 15];
    let mut v = Vec::new();
    // Q1
    let a6pairs: Vec<(u8, u8)> = A6.iter().flat_map(|a| A6.iter().map(move |b| (*a, *b))).collect();
    {
        let mut p: Vec<(u8, u8)> = A12.iter().flat_map(|a| A12.iter().map(move |b| (*a, *b))).collect();
        for x in 0..=255u8 {
            p.push((x, 255));
            p.push((255, x));
        }
        p.sort();
        p.dedup();
        v.push(Family {
            name: "Q1-channel-grid",
            what: "all 65,536 (backdrop channel, source channel) pairs in each colour slot (three different re-indexings) x (Ba,Sa) in A12^2 + both full alpha axes {(x,255),(255,x)}, opacity 255/255".into(),
            n: p.len(),
            modes: all.clone(),
            build: Box::new(move |i| {
                let (b, s) = channel_grid(p[i].0, p[i].1);
                Spec { w: 256, h: 256, b, s, lo: 255, co: 255, via_tilemap: false, flags: 3, pad: 0, hflags: 1 }
            }),
        });
    }
    // Q2
    {
        let ops = opacity_pairs_quick();
        let n = ops.len();
        v.push(Family {
            name: "Q2-opacity-sweep",
            what: "(layer opacity, cel opacity) in {(o,255),(255,o) | o in 0..255} + A6^2, x (Bc,Sc) in A12^2 x (Ba,Sa) in A6^2".into(),
            n,
            modes: all.clone(),
            build: Box::new(move |i| {
                let (b, s) = small_grid();
                Spec { w: 72, h: 72, b, s, lo: ops[i].0, co: ops[i].1, via_tilemap: false, flags: 3, pad: 0, hflags: 1 }
            }),
        });
    }
    // Q3
    {
        v.push(Family {
            name: "Q3-tie-lattice",
            what: "B.rgb, S.rgb in {0,1,127,128,255}^3 each (ties for the saturation sort / luminosity quirks) x (Ba,Sa) in {(255,255),(128,255),(255,128),(1,1)}".into(),
            n: 4,
            modes: all.clone(),
            build: Box::new(move |i| {
                let al = [(255u8, 255u8), (128, 255), (255, 128), (1, 1)];
                let (b, s) = lattice_grid(&[0, 1, 127, 128, 255], &al[i..i + 1]);
                let (w, h) = shape(b.len());
                Spec { w, h, b, s, lo: 255, co: 255, via_tilemap: false, flags: 3, pad: 0, hflags: 1 }
            }),
        });
    }
    // Q4: 8-level lattice for all modes (denser colour coverage for the HSL modes)
    {
        v.push(Family {
            name: "Q4-lattice8",
            what: "B.rgb, S.rgb on the 8-level lattice {0,36,73,109,146,182,219,255}^3 (262,144 pairs) x (Ba,Sa) in {(255,255),(128,200),(200,77)}".into(),
            n: 3,
            modes: all.clone(),
            build: Box::new(move |i| {
                let al = [(255u8, 255u8), (128, 200), (200, 77)];
                let (b, s) = lattice_grid(&[0, 36, 73, 109, 146, 182, 219, 255], &al[i..i + 1]);
                let (w, h) = shape(b.len());
                Spec { w, h, b, s, lo: 255, co: [255u8, 254, 100][i], via_tilemap: false, flags: 3, pad: 0, hflags: 1 }
            }),
        });
    }
    // Q5: the same small grid rendered through the tilemap route (tileset of 1x1 tiles)
    {
        let ops: Vec<(u8, u8)> = vec![(255, 255), (255, 128), (128, 255), (200, 77), (1, 255), (255, 0), (254, 254)];
        let n = ops.len();
        v.push(Family {
            name: "Q5-tilemap-route",
            what: "the (Bc,Sc) in A12^2 x (Ba,Sa) in A6^2 grid with the source layer being a TILEMAP layer (one 1x1 tile per source pixel) x 7 opacity pairs: the tilemap rendering route must blend exactly like the image route".into(),
            n,
            modes: all.clone(),
            build: Box::new(move |i| {
                let (b, s) = small_grid();
                Spec { w: 72, h: 72, b, s, lo: ops[i].0, co: ops[i].1, via_tilemap: true, flags: 3, pad: 0, hflags: 1 }
            }),
        });
    }
    // Q6: source layer carrying other flag bits (background / locked / continuous / collapsed / reference)
    {
        let fl: Vec<u16> = vec![1 | 4 | 8, 1 | 8, 1 | 2 | 0x10 | 0x20 | 0x40, 0xFFFF];
        let ops: Vec<(u8, u8)> = vec![(255, 255), (200, 77), (255, 0)];
        let n = fl.len() * ops.len();
        v.push(Family {
            name: "Q6-layer-flags",
            what: "the small grid with the source layer's flag word in {visible+locked+background, visible+background, visible+all other defined bits, 0xFFFF} x 3 opacity pairs: no flag other than `visible` takes part in blending".into(),
            n,
            modes: all.clone(),
            build: Box::new(move |i| {
                let (b, s) = small_grid();
                let (lo, co) = ops[i % ops.len()];
                Spec { w: 72, h: 72, b, s, lo, co, via_tilemap: false, flags: fl[i / ops.len()], pad: 0, hflags: 1 }
            }),
        });
    }
    // Q7: cels that overhang the canvas (negative offsets): clipping must not change blending
    {
        let ops: Vec<(u8, u8)> = vec![(255, 255), (200, 77), (255, 0), (128, 255)];
        let pads: Vec<u8> = vec![1, 2, 3, 5, 6, 7];
        let n = ops.len() * pads.len();
        v.push(Family {
            name: "Q7-overhang",
            what: "the small grid with the backdrop cel, the source cel or both one pixel larger than the canvas on the top and left at offset (-1,-1) (and optionally two pixels larger on the bottom and right), junk pixels outside the canvas, x 4 opacity pairs: the on-canvas pixels are the same, so must the result be".into(),
            n,
            modes: all.clone(),
            build: Box::new(move |i| {
                let (b, s) = small_grid();
                let (lo, co) = ops[i % ops.len()];
                Spec { w: 72, h: 72, b, s, lo, co, via_tilemap: false, flags: 3, pad: pads[i / ops.len()], hflags: 1 }
            }),
        });
    }
    // Q8: the header's flag word
    {
        let ops: Vec<(u8, u8)> = vec![(255, 255), (200, 77), (0, 255), (128, 255), (255, 128)];
        let hf: Vec<u32> = vec![0, 2, 0xFFFF_FFFE, 0xFFFF_FFFF];
        let n = ops.len() * hf.len();
        v.push(Family {
            name: "Q8-header-flags",
            what: "the small grid with the file header's flag word in {0, 2, 0xFFFFFFFE, 0xFFFFFFFF} x 5 opacity pairs: the layer opacity takes part in blending whatever the header says".into(),
            n,
            modes: all.clone(),
            build: Box::new(move |i| {
                let (b, s) = small_grid();
                let (lo, co) = ops[i % ops.len()];
                Spec { w: 72, h: 72, b, s, lo, co, via_tilemap: false, flags: 3, pad: 0, hflags: hf[i / ops.len()] }
            }),
        });
    }
    if tier == Tier::Thorough {
        // T1: the complete (Bc,Sc,Ba,Sa) grid for the separable modes
        v.push(Family {
            name: "T1-complete-separable",
            what: "the complete (backdrop channel, source channel, backdrop alpha, source alpha) space U8^4 at opacity 255 for the 15 separable modes".into(),
            n: 65536,
            modes: separable.clone(),
            build: Box::new(move |i| {
                let (b, s) = channel_grid((i >> 8) as u8, i as u8);
                Spec { w: 256, h: 256, b, s, lo: 255, co: 255, via_tilemap: false, flags: 3, pad: 0, hflags: 1 }
            }),
        });
        // T2: layer opacity sweep x Q1
        {
            let p = a6pairs.clone();
            v.push(Family {
                name: "T2-opacity-x-channel-grid",
                what: "layer opacity over all 256 values (cel opacity 255, and the transposed pair for every 8th value) x the Q1 grid, all 19 modes".into(),
                n: 256 * p.len(),
                modes: all.clone(),
                build: Box::new(move |i| {
                    let o = (i / p.len()) as u8;
                    let (ba, sa) = p[i % p.len()];
                    let (b, s) = channel_grid(ba, sa);
                    if o % 8 == 3 {
                        Spec { w: 256, h: 256, b, s, lo: 255, co: o, via_tilemap: false, flags: 3, pad: 0, hflags: 1 }
                    } else {
                        Spec { w: 256, h: 256, b, s, lo: o, co: 255, via_tilemap: false, flags: 3, pad: 0, hflags: 1 }
                    }
                }),
            });
        }
        // T3: HSL modes on the 16-level lattice, and full-range axes against fixed colours
        v.push(Family {
            name: "T3-hsl-lattice16",
            what: "HSL modes: B.rgb, S.rgb on the 16-level lattice {0,17,..,255}^3 (16.7M pairs) x (Ba,Sa) in {(255,255),(128,200)}; one spec per (alpha pair, backdrop red level, backdrop green level)".into(),
            n: 2 * 256,
            modes: hsl.clone(),
            build: Box::new(move |i| {
                let (ba, sa) = [(255u8, 255u8), (128, 200)][i / 256];
                let br = ((i % 256) / 16 * 17) as u8;
                let bg = ((i % 16) * 17) as u8;
                let mut b = Vec::with_capacity(65536);
                let mut s = Vec::with_capacity(65536);
                for bb in 0..16u32 {
                    for sc in 0..4096u32 {
                        b.push(px(br, bg, (bb * 17) as u8, ba));
                        s.push(px(((sc >> 8) * 17) as u8, (((sc >> 4) & 15) * 17) as u8, ((sc & 15) * 17) as u8, sa));
                    }
                }
                Spec { w: 256, h: 256, b, s, lo: 255, co: 255, via_tilemap: false, flags: 3, pad: 0, hflags: 1 }
            }),
        });
        v.push(Family {
            name: "T3-hsl-full-axis",
            what: "HSL modes: S.rgb over all of U8^3 against 8 fixed backdrops, and B.rgb over all of U8^3 against 8 fixed sources (opaque)".into(),
            n: 2 * 8 * 256,
            modes: hsl.clone(),
            build: Box::new(move |i| {
                let fixed = [[0u8, 0, 0], [255, 255, 255], [255, 0, 0], [12, 200, 99], [128, 128, 128], [1, 254, 127], [90, 90, 200], [250, 128, 3]];
                let swap = i / (8 * 256) == 1;
                let fx = fixed[(i / 256) % 8];
                let r = (i % 256) as u8;
                let mut b = Vec::with_capacity(65536);
                let mut s = Vec::with_capacity(65536);
                for g in 0..256u32 {
                    for bl in 0..256u32 {
                        let var = px(r, g as u8, bl as u8, 255);
                        let fxp = px(fx[0], fx[1], fx[2], 255);
                        if swap {
                            b.push(var);
                            s.push(fxp);
                        } else {
                            b.push(fxp);
                            s.push(var);
                        }
                    }
                }
                Spec { w: 256, h: 256, b, s, lo: 255, co: 255, via_tilemap: false, flags: 3, pad: 0, hflags: 1 }
            }),
        });
        // T4: all 65,536 opacity pairs for Normal and Multiply
        v.push(Family {
            name: "T4-all-opacity-pairs",
            what: "all 65,536 (layer opacity, cel opacity) pairs x (Bc,Sc) in A12^2 x (Ba,Sa) in A6^2 for Normal and Multiply".into(),
            n: 65536,
            modes: vec![0, 1],
            build: Box::new(move |i| {
                let (b, s) = small_grid();
                Spec { w: 72, h: 72, b, s, lo: (i >> 8) as u8, co: i as u8, via_tilemap: false, flags: 3, pad: 0, hflags: 1 }
            }),
        });
    }
    v
}
