mod props;
pub use mc_walk::{common, observe, root, worker};

use mc_core::explore::{Ctx, Tier};


fn usage() -> ! {
    eprintln!("usage: mc check <C01..C19> <quick|thorough> | mc replay <replay.json> | mc selftest");
    std::process::exit(2)
}

fn main() {
    let args: Vec<String> = std::env::args().collect();
    if args.len() < 2 {
        usage();
    }
    observe::install_panic_hook();
    match args[1].as_str() {
        "check" => {
            if args.len() < 4 {
                usage();
            }
            let tier = match args[3].as_str() {
                "quick" => Tier::Quick,
                "thorough" => Tier::Thorough,
                _ => usage(),
            };
            let code = props::run(&args[2], tier, None);
            std::process::exit(code);
        }
        "replay" => {
            if args.len() < 3 {
                usage();
            }
            let text = std::fs::read_to_string(&args[2]).expect("read replay file");
            let j: serde_json::Value = serde_json::from_str(&text).expect("parse replay file");
            let prop = j["property"].as_str().expect("property").to_string();
            let tier = if j["tier"].as_str() == Some("thorough") { Tier::Thorough } else { Tier::Quick };
            let only = (j["family"].as_str().expect("family").to_string(), j["case"].as_str().expect("case").to_string());
            let code = props::run(&prop, tier, Some(only));
            std::process::exit(code);
        }
        "selftest" => {
            let ctx = Ctx::new("SELFTEST", Tier::Quick, "other", &root());
            std::process::exit(props::selftest::run(&ctx));
        }
        _ => usage(),
    }
}
