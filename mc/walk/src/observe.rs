//! Whole-API observation of a loaded `AsepriteFile` into the canonical `Obs`.
//! Every group of accessor calls runs under `catch_unwind`; a panic is recorded with
//! the accessor label and does not stop the walk.

use asefile::*;
use image::RgbaImage;
use mc_core::obs::*;
use std::cell::RefCell;
use std::panic::{catch_unwind, AssertUnwindSafe};

thread_local! {
    pub static LAST_PANIC: RefCell<Option<String>> = const { RefCell::new(None) };
}

/// A logger that formats every record (so that the arguments of the library's log macros are
/// evaluated, as they are in an application that has logging switched on) and drops the text.
struct FormatAndDrop;
impl log::Log for FormatAndDrop {
    fn enabled(&self, _: &log::Metadata) -> bool {
        true
    }
    fn log(&self, r: &log::Record) {
        use std::fmt::Write;
        struct Sink;
        impl Write for Sink {
            fn write_str(&mut self, _: &str) -> std::fmt::Result {
                Ok(())
            }
        }
        let _ = write!(Sink, "{} {}", r.target(), r.args());
    }
    fn flush(&self) {}
}
static LOGGER: FormatAndDrop = FormatAndDrop;

/// Install a quiet panic hook that records "file:line: message" in a thread-local, and switch the
/// process-wide log level to Trace with a logger that formats and discards.
pub fn install_panic_hook() {
    let _ = log::set_logger(&LOGGER);
    log::set_max_level(log::LevelFilter::Trace);
    std::panic::set_hook(Box::new(|info| {
        let loc = info.location().map(|l| format!("{}:{}", l.file().rsplit('/').next().unwrap_or(""), l.line())).unwrap_or_default();
        let msg = if let Some(s) = info.payload().downcast_ref::<&str>() {
            s.to_string()
        } else if let Some(s) = info.payload().downcast_ref::<String>() {
            s.clone()
        } else {
            "<non-string panic>".into()
        };
        LAST_PANIC.with(|p| *p.borrow_mut() = Some(format!("{}: {}", loc, msg)));
    }));
}

pub fn take_panic() -> String {
    LAST_PANIC.with(|p| p.borrow_mut().take()).unwrap_or_else(|| "<no message>".into())
}

/// Run `f`; on panic push (label, message) and return None.
pub fn guarded<T>(panics: &mut Vec<(String, String)>, label: impl FnOnce() -> String, f: impl FnOnce() -> T) -> Option<T> {
    match catch_unwind(AssertUnwindSafe(f)) {
        Ok(v) => Some(v),
        Err(_) => {
            panics.push((label(), take_panic()));
            None
        }
    }
}

pub fn img_of(i: RgbaImage) -> Img {
    let (w, h) = i.dimensions();
    Img::from_rgba(w, h, i.into_raw())
}

fn ud(u: Option<&UserData>) -> Option<UdObs> {
    u.map(|u| UdObs { text: u.text.clone(), color: u.color.map(|c| c.0) })
}

pub fn blend_index(b: BlendMode) -> u8 {
    match b {
        BlendMode::Normal => 0,
        BlendMode::Multiply => 1,
        BlendMode::Screen => 2,
        BlendMode::Overlay => 3,
        BlendMode::Darken => 4,
        BlendMode::Lighten => 5,
        BlendMode::ColorDodge => 6,
        BlendMode::ColorBurn => 7,
        BlendMode::HardLight => 8,
        BlendMode::SoftLight => 9,
        BlendMode::Difference => 10,
        BlendMode::Exclusion => 11,
        BlendMode::Hue => 12,
        BlendMode::Saturation => 13,
        BlendMode::Color => 14,
        BlendMode::Luminosity => 15,
        BlendMode::Addition => 16,
        BlendMode::Subtract => 17,
        BlendMode::Divide => 18,
    }
}

fn cel_obs(c: &Cel, with_image: bool) -> CelObs {
    CelObs { frame: c.frame(), layer: c.layer(), empty: c.is_empty(), top_left: c.top_left(), is_tilemap: c.is_tilemap(), ud: ud(c.user_data()), image: if with_image { Some(img_of(c.image())) } else { None } }
}

pub fn observe(file: &AsepriteFile, want: &Want) -> Obs {
    let mut o = Obs::default();
    let mut panics: Vec<(String, String)> = Vec::new();
    o.width = file.width();
    o.height = file.height();
    o.size = file.size();
    o.num_frames = file.num_frames();
    o.num_layers = file.num_layers();
    let pf = file.pixel_format();
    o.fmt = Some(match pf {
        PixelFormat::Rgba => PixFmtObs::Rgba,
        PixelFormat::Grayscale => PixFmtObs::Gray,
        PixelFormat::Indexed { transparent_color_index } => PixFmtObs::Indexed(transparent_color_index),
    });
    o.bytes_per_pixel = pf.bytes_per_pixel();
    o.is_indexed = file.is_indexed_color();
    o.transparent = file.transparent_color_index();
    if pf.transparent_color_index() != o.transparent {
        panics.push(("pixel_format().transparent_color_index()".into(), "disagrees with transparent_color_index()".into()));
    }
    o.palette = file.palette().map(|p| PalObs {
        num_colors: p.num_colors(),
        probes: want
            .pal_probes
            .iter()
            .map(|i| {
                (
                    *i,
                    p.color(*i).map(|e| {
                        let rgba = e.raw_rgba8();
                        assert_eq!([e.red(), e.green(), e.blue(), e.alpha()], rgba, "palette entry channel accessors disagree with raw_rgba8");
                        PalEntryObs { id: e.id(), rgba, name: e.name().map(|s| s.to_string()) }
                    }),
                )
            })
            .collect(),
    });
    let canvas_ok = (o.width as u64) * (o.height as u64) <= want.max_canvas_pixels;
    let nl = o.num_layers;
    let nf = o.num_frames;

    for id in 0..nl {
        if let Some(l) = guarded(&mut panics, || format!("layer({})", id), || {
            let l = file.layer(id);
            LayerObs {
                id: l.id(),
                flags: l.flags().bits(),
                name: l.name().to_string(),
                blend: blend_index(l.blend_mode()),
                opacity: l.opacity(),
                kind: match l.layer_type() {
                    LayerType::Image => LayerKindObs::Image,
                    LayerType::Group => LayerKindObs::Group,
                    LayerType::Tilemap(t) => LayerKindObs::Tilemap(t),
                },
                is_tilemap: l.is_tilemap(),
                parent: l.parent().map(|p| p.id()),
                visible: l.is_visible(),
                ud: ud(l.user_data()),
            }
        }) {
            o.layers.push(l);
        }
    }
    if let Some(v) = guarded(&mut panics, || "layers()".into(), || file.layers().map(|l| l.id()).collect::<Vec<_>>()) {
        o.layers_iter = v;
    }
    // the other ways to consume the same iterator must agree with collecting it
    if let Some(Some(msg)) = guarded(&mut panics, || "layers() iterator adaptors".into(), || {
        let n = o.layers_iter.len();
        let (lo, hi) = file.layers().size_hint();
        if lo > n || hi.map_or(false, |h| h < n) {
            return Some(format!("size_hint ({}, {:?}) excludes the {} items it yields", lo, hi, n));
        }
        if file.layers().count() != n {
            return Some(format!("count() = {}, collected {}", file.layers().count(), n));
        }
        if file.layers().last().map(|l| l.id()) != o.layers_iter.last().copied() {
            return Some("last() disagrees with the collected sequence".into());
        }
        for k in [0usize, 1, 2, n.saturating_sub(1), n, n + 1] {
            if file.layers().nth(k).map(|l| l.id()) != o.layers_iter.get(k).copied() {
                return Some(format!("nth({}) disagrees with the collected sequence", k));
            }
        }
        // a partly consumed iterator continues where it stopped
        let mut it = file.layers();
        let head: Vec<u32> = it.by_ref().take(2).map(|l| l.id()).collect();
        let tail: Vec<u32> = it.map(|l| l.id()).collect();
        if head.iter().chain(tail.iter()).copied().collect::<Vec<_>>() != o.layers_iter {
            return Some("take(2) followed by the rest disagrees with the collected sequence".into());
        }
        if n <= 4096 && file.layers().skip(1).step_by(2).map(|l| l.id()).collect::<Vec<_>>() != o.layers_iter.iter().skip(1).step_by(2).copied().collect::<Vec<_>>() {
            return Some("skip(1).step_by(2) disagrees with the collected sequence".into());
        }
        // a layer reached through an adaptor is the same layer as layer(id): same visibility, same parent
        let attrs = |l: &Layer| (l.id(), l.is_visible(), l.parent().map(|p| p.id()), l.name().to_string());
        for k in 0..(if n <= 512 { n.min(48) } else { 0 }) {
            let direct = attrs(&file.layer(k as u32));
            if file.layers().nth(k).map(|l| attrs(&l)) != Some(direct.clone()) {
                return Some(format!("layers().nth({}) differs from layer({}) in visibility, parent or name", k, k));
            }
            let mut it = file.layers().skip(k);
            if it.next().map(|l| attrs(&l)) != Some(direct.clone()) {
                return Some(format!("layers().skip({}).next() differs from layer({}) in visibility, parent or name", k, k));
            }
            if k >= 1 {
                let via: Vec<_> = file.layers().step_by(k).map(|l| attrs(&l)).collect();
                let want: Vec<_> = (0..n).step_by(k).map(|i| attrs(&file.layer(i as u32))).collect();
                if via != want {
                    return Some(format!("layers().step_by({}) yields layers whose visibility, parent or name differ from layer(id)", k));
                }
            }
        }
        None
    }) {
        panics.push(("layers() iterator".into(), msg));
    }

    for f in 0..nf {
        let fo = guarded(&mut panics, || format!("frame({}).image", f), || {
            let fr = file.frame(f);
            FrameObs { id: fr.id(), duration: fr.duration(), image: if want.frame_images && canvas_ok { Some(img_of(fr.image())) } else { None } }
        });
        if let Some(fo) = fo {
            o.frames.push(fo);
        }
    }

    o.routes_agree = true;
    let with_img = want.cel_images && canvas_ok;
    for f in 0..nf {
        for l in 0..nl {
            let r = guarded(&mut panics, || format!("cel({},{})", f, l), || {
                let a = cel_obs(&file.cel(f, l), with_img);
                let b = cel_obs(&file.frame(f).layer(l), with_img);
                let c = cel_obs(&file.layer(l).frame(f), with_img);
                (a, b, c)
            });
            if let Some((a, b, c)) = r {
                if a != b || a != c {
                    if o.routes_agree {
                        o.route_mismatch = Some(format!("cel({},{}) direct={:?} frame.layer={:?} layer.frame={:?}", f, l, a, b, c));
                    }
                    o.routes_agree = false;
                }
                o.cels.push(a);
            }
        }
    }

    if want.tilemaps {
        for l in 0..nl {
            for f in 0..nf {
                let r = guarded(&mut panics, || format!("tilemap({},{})", l, f), || {
                    file.tilemap(l, f).map(|tm| {
                        let xs = tile_probe_axis(tm.width(), want.tile_far);
                        let ys = tile_probe_axis(tm.height(), want.tile_far);
                        let mut tiles = Vec::with_capacity(xs.len() * ys.len());
                        for y in &ys {
                            for x in &xs {
                                tiles.push(tm.tile(*x, *y).id());
                            }
                        }
                        TilemapObs {
                            layer: l,
                            frame: f,
                            width: tm.width(),
                            height: tm.height(),
                            tile_size: tm.tile_size(),
                            tileset_id: tm.tileset().id(),
                            tile_offsets: tm.tile_offsets(),
                            pixel_offsets: tm.pixel_offsets(),
                            image: if with_img { Some(img_of(tm.image())) } else { None },
                            tiles,
                        }
                    })
                });
                o.tilemaps.push(r.flatten());
            }
        }
        // out-of-range arguments are documented to give None
        let r = guarded(&mut panics, || "tilemap(out of range)".into(), || file.tilemap(nl, 0).is_none() && file.tilemap(0, nf).is_none() && file.tilemap(u32::MAX, u32::MAX).is_none());
        if r == Some(false) {
            panics.push(("tilemap(out of range)".into(), "returned Some".into()));
        }
    }

    let ts = file.tilesets();
    o.tilesets_len = ts.len();
    o.tilesets_is_empty = ts.is_empty();
    let mut sets: Vec<&Tileset> = ts.iter().collect();
    sets.sort_by_key(|t| t.id());
    for t in sets {
        let id = t.id();
        let r = guarded(&mut panics, || format!("tileset({})", id), || {
            let sz = t.tile_size();
            let mut tile_images = Vec::new();
            let mut image = None;
            if want.tileset_images {
                image = Some(img_of(t.image()));
                for i in 0..t.tile_count().min(want.max_tile_images) {
                    tile_images.push(img_of(t.tile_image(i)));
                }
            }
            let conv: (u32, u32) = sz.into();
            assert_eq!(conv, (sz.width() as u32, sz.height() as u32), "TileSize conversion disagrees");
            TilesetObs {
                id: t.id(),
                empty_zero: t.empty_tile_is_id_zero(),
                count: t.tile_count(),
                tile_size: (sz.width(), sz.height()),
                base_index: t.base_index(),
                name: t.name().to_string(),
                ext: t.external_file().map(|e| (e.external_file_id().value(), e.tileset_id())),
                image,
                tile_images,
            }
        });
        if let Some(t) = r {
            o.tilesets.push(t);
        }
    }
    if ts.iter().count() != ts.len() as usize || (ts.len() == 0) != ts.is_empty() {
        panics.push(("tilesets()".into(), format!("len() = {}, iter().count() = {}, is_empty() = {}", ts.len(), ts.iter().count(), ts.is_empty())));
    }
    o.tileset_get = want.id_probes.iter().map(|i| (*i, ts.get(*i).map(|t| t.id() == *i).unwrap_or(false))).collect();

    let mut ef: Vec<(u32, String)> = file.external_files().map().iter().map(|(k, v)| (k.value(), format!("{}\u{1}{}", v.id().value(), v.name()))).collect();
    ef.sort();
    // key and entry id must agree; then keep (id, name)
    o.ext_files = ef
        .into_iter()
        .map(|(k, v)| {
            let (id, name) = v.split_once('\u{1}').unwrap();
            if id != k.to_string() {
                panics.push(("external_files().map()".into(), format!("key {} holds entry id {}", k, id)));
            }
            (k, name.to_string())
        })
        .collect();
    o.ext_get = want
        .id_probes
        .iter()
        .map(|i| {
            let a = file.external_file_by_id(&ExternalFileId::new(*i)).map(|e| e.name().to_string());
            let b = file.external_files().get(&ExternalFileId::new(*i)).map(|e| e.name().to_string());
            if a != b {
                panics.push(("external_file_by_id".into(), "disagrees with external_files().get".into()));
            }
            (*i, a)
        })
        .collect();

    o.num_tags = file.num_tags();
    for i in 0..o.num_tags {
        let r = guarded(&mut panics, || format!("tag({})", i), || {
            let t = file.tag(i);
            TagObs {
                name: t.name().to_string(),
                from: t.from_frame(),
                to: t.to_frame(),
                dir: match t.animation_direction() {
                    AnimationDirection::Forward => 0,
                    AnimationDirection::Reverse => 1,
                    AnimationDirection::PingPong => 2,
                },
                repeat: t.repeat().map(|r| r.get()),
                ud: ud(t.user_data()),
            }
        });
        if let Some(t) = r {
            o.tags.push(t);
        }
        // Clone of the public value types keeps every field
        let _ = guarded(&mut panics, || format!("tag({}).clone()", i), || {
            let t = file.tag(i);
            let c = t.clone();
            assert!(format!("{:?}", c) == format!("{:?}", t) && c.user_data() == t.user_data(), "clone of tag {} differs from the tag", i);
        });
    }
    o.get_tag = want.id_probes.iter().map(|i| (*i, file.get_tag(*i).map(|t| t.name().to_string()))).collect();
    o.tag_by_name = want
        .name_probes
        .iter()
        .map(|n| {
            let r = file.tag_by_name(n).map(|t| (0..file.num_tags()).position(|i| std::ptr::eq(file.tag(i), t)).unwrap_or(usize::MAX));
            (n.clone(), r)
        })
        .collect();
    o.layer_by_name = want.name_probes.iter().map(|n| (n.clone(), file.layer_by_name(n).map(|l| l.id()))).collect();

    for s in file.slices() {
        o.slices.push(SliceObs {
            name: s.name.clone(),
            keys: s
                .keys
                .iter()
                .map(|k| KeyObs { frame: k.from_frame, origin: k.origin, size: k.size, slice9: k.slice9.as_ref().map(|n| (n.center_x, n.center_y, n.center_width, n.center_height)), pivot: k.pivot })
                .collect(),
            ud: ud(s.user_data.as_ref()),
        });
    }
    let _ = guarded(&mut panics, || "slice / user data clone".into(), || {
        for s in file.slices() {
            let c = s.clone();
            assert!(format!("{:?}", c) == format!("{:?}", s), "clone of slice {:?} differs from the slice", s.name);
            for k in &s.keys {
                assert!(format!("{:?}", k.clone()) == format!("{:?}", k), "clone of a slice key differs");
            }
        }
        if let Some(u) = file.sprite_user_data() {
            assert!(u.clone() == *u && !(u.clone() != *u), "UserData clone / PartialEq disagree");
        }
        for l in 0..file.num_layers().min(64) {
            let layer = file.layer(l);
            if let Some(u) = layer.user_data() {
                assert!(u.clone() == *u && !(u.clone() != *u), "UserData clone / PartialEq disagree");
            }
        }
    });
    o.sprite_ud = ud(file.sprite_user_data());
    if want.debug_fmt {
        let _ = guarded(&mut panics, || "Debug".into(), || {
            use std::fmt::Write;
            struct Sink(usize);
            impl Write for Sink {
                fn write_str(&mut self, s: &str) -> std::fmt::Result {
                    self.0 += s.len();
                    Ok(())
                }
            }
            let mut s = Sink(0);
            write!(s, "{:?}", file).unwrap();
            if nl > 0 {
                write!(s, "{:?} {:?}", file.layer(0), file.layer(0).flags()).unwrap();
            }
            if nf > 0 {
                write!(s, "{:?}", file.frame(0)).unwrap();
            }
            if nl > 0 && nf > 0 {
                write!(s, "{:?}", file.cel(0, 0)).unwrap();
            }
            s.0
        });
    }
    o.panics = panics;
    o
}
