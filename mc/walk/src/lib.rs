//! The part of the harness that touches the subject and is needed in every build
//! profile: guarded loading, the whole-API observation walk, the counting allocator and
//! the worker process (child loop and parent pool).
pub mod alloc;
pub mod common;
pub mod observe;
pub mod worker;

use std::path::PathBuf;

pub fn root() -> PathBuf {
    PathBuf::from(std::env::var("VERIF_ROOT").unwrap_or_else(|_| "/verif".into()))
}
