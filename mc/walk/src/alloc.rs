//! Counting global allocator.  Inactive (one relaxed load per call) unless `TRACK` is
//! set, which only worker processes do; a worker is single-threaded while a task runs,
//! so the counters are exact.  Over budget => a result record is written with a raw
//! write(2) and the process exits with status 77 (a clean `Budget` verdict instead of
//! an OOM kill or an allocation-failure abort).

use std::alloc::{GlobalAlloc, Layout, System};
use std::sync::atomic::{AtomicBool, AtomicI64, AtomicU64, Ordering::Relaxed};

pub static TRACK: AtomicBool = AtomicBool::new(false);
pub static LIVE: AtomicI64 = AtomicI64::new(0);
pub static PEAK: AtomicI64 = AtomicI64::new(0);
pub static LARGEST: AtomicU64 = AtomicU64::new(0);
pub static LIMIT: AtomicI64 = AtomicI64::new(i64::MAX);

pub struct Counting;

#[inline]
fn on_alloc(size: u64) {
    let live = LIVE.fetch_add(size as i64, Relaxed) + size as i64;
    if size > LARGEST.load(Relaxed) {
        LARGEST.store(size, Relaxed);
    }
    if live > PEAK.load(Relaxed) {
        PEAK.store(live, Relaxed);
    }
    if live > LIMIT.load(Relaxed) {
        over_budget(live as u64, size);
    }
}

#[cold]
fn over_budget(live: u64, size: u64) -> ! {
    // status 5 = BUDGET; see worker.rs for the record layout
    let mut rec = [0u8; 24];
    rec[0..4].copy_from_slice(&5u32.to_le_bytes());
    rec[4..12].copy_from_slice(&live.to_le_bytes());
    rec[12..20].copy_from_slice(&size.to_le_bytes());
    rec[20..24].copy_from_slice(&0u32.to_le_bytes());
    unsafe {
        libc::write(1, rec.as_ptr() as *const libc::c_void, rec.len());
        libc::_exit(77);
    }
}

unsafe impl GlobalAlloc for Counting {
    unsafe fn alloc(&self, l: Layout) -> *mut u8 {
        if TRACK.load(Relaxed) {
            on_alloc(l.size() as u64);
        }
        System.alloc(l)
    }
    unsafe fn alloc_zeroed(&self, l: Layout) -> *mut u8 {
        if TRACK.load(Relaxed) {
            on_alloc(l.size() as u64);
        }
        System.alloc_zeroed(l)
    }
    unsafe fn dealloc(&self, p: *mut u8, l: Layout) {
        if TRACK.load(Relaxed) {
            LIVE.fetch_sub(l.size() as i64, Relaxed);
        }
        System.dealloc(p, l)
    }
    unsafe fn realloc(&self, p: *mut u8, l: Layout, new: usize) -> *mut u8 {
        if TRACK.load(Relaxed) {
            LIVE.fetch_sub(l.size() as i64, Relaxed);
            on_alloc(new as u64);
        }
        System.realloc(p, l, new)
    }
}
