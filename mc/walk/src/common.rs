//! Shared harness pieces: guarded loading, the predicted-vs-observed conformance step.

use crate::observe::{self, guarded, take_panic};
use asefile::{AsepriteFile, AsepriteParseError};
use mc_core::ase::File;
use mc_core::explore::{hash64, Ctx, Violation};
use mc_core::obs::{first_diff, Obs, Want};
use mc_core::sem;
use serde_json::json;
use std::panic::{catch_unwind, AssertUnwindSafe};

pub enum Loaded {
    Ok(AsepriteFile),
    Err(AsepriteParseError),
    Panic(String),
}

pub fn err_variant(e: &AsepriteParseError) -> &'static str {
    match e {
        AsepriteParseError::InvalidInput(_) => "InvalidInput",
        AsepriteParseError::UnsupportedFeature(_) => "UnsupportedFeature",
        AsepriteParseError::InternalError(_) => "InternalError",
        AsepriteParseError::IoError(_) => "IoError",
    }
}

pub fn load(bytes: &[u8]) -> Loaded {
    match catch_unwind(AssertUnwindSafe(|| AsepriteFile::read(bytes))) {
        Ok(Ok(f)) => Loaded::Ok(f),
        Ok(Err(e)) => Loaded::Err(e),
        Err(_) => Loaded::Panic(take_panic()),
    }
}

/// strip volatile numbers out of a message so that signatures group by site
pub fn sig_of(msg: &str) -> String {
    let mut out = String::new();
    let mut prev_digit = false;
    // keep "file.rs:LINE:" prefix intact, blank other digit runs
    let (head, tail) = match msg.find(": ") {
        Some(i) if msg[..i].contains(".rs:") => (&msg[..i + 2], &msg[i + 2..]),
        _ => ("", msg),
    };
    out.push_str(head);
    for c in tail.chars() {
        if c.is_ascii_digit() {
            if !prev_digit {
                out.push('#');
            }
            prev_digit = true;
        } else {
            prev_digit = false;
            out.push(c);
        }
    }
    if out.len() > 160 {
        let mut e = 160;
        while !out.is_char_boundary(e) {
            e -= 1;
        }
        out.truncate(e);
    }
    out
}

pub struct Conf {
    pub obs: Option<Obs>,
    pub ok: bool,
}

/// Encode the model, load it with the library, observe, compare with the prediction.
/// Reports a violation on: load error/panic, any panic during the walk, route
/// disagreement, or any difference between predicted and observed values.
pub fn conform(ctx: &Ctx, family: &str, case: &dyn Fn() -> String, file: &File, want: &Want) -> Conf {
    if !ctx.wants(family, case) {
        return Conf { obs: None, ok: true };
    }
    let semv = match sem::interpret(file) {
        Ok(s) => s,
        Err(e) => panic!("machinery error: generator for family {} produced a file outside the reference model ({}): case {}", family, e, case()),
    };
    let mut want = want.clone();
    if want.pal_probes.is_empty() {
        sem::default_probes(&semv, &mut want);
    }
    let bytes = file.encode();
    conform_bytes(ctx, family, case, &bytes, &semv, &want)
}

pub fn conform_bytes(ctx: &Ctx, family: &str, case: &dyn Fn() -> String, bytes: &[u8], semv: &sem::SpriteSem, want: &Want) -> Conf {
    let pred = sem::predict(semv, want);
    let viol = |sig: String, detail: String| {
        ctx.violation(Violation { family: family.to_string(), case: case(), sig, detail, bytes: Some(bytes.to_vec()), extra: json!({}) });
    };
    let loaded = load(bytes);
    let f = match loaded {
        Loaded::Ok(f) => f,
        Loaded::Err(e) => {
            ctx.eval(1);
            ctx.outcome(hash64(&("err", err_variant(&e))));
            viol(format!("load-err:{}", sig_of(&e.to_string())), format!("well-formed file refused: {}", e));
            return Conf { obs: None, ok: false };
        }
        Loaded::Panic(m) => {
            ctx.eval(1);
            ctx.outcome(hash64(&("panic", &m)));
            viol(format!("load-panic:{}", sig_of(&m)), format!("panic while loading: {}", m));
            return Conf { obs: None, ok: false };
        }
    };
    let mut p = Vec::new();
    let o = guarded(&mut p, || "observe".into(), || observe::observe(&f, want));
    let Some(mut o) = o else {
        ctx.eval(1);
        viol(format!("observe-panic:{}", sig_of(&p[0].1)), format!("panic in observation walk: {:?}", p));
        return Conf { obs: None, ok: false };
    };
    let calls = 40 + o.layers.len() as u64 * 12 + o.cels.len() as u64 * 21 + o.frames.len() as u64 * 3 + o.tags.len() as u64 * 6 + o.slices.len() as u64 * 3 + o.tilesets.len() as u64 * 10 + o.tilemaps.iter().flatten().map(|t| 8 + t.tiles.len() as u64).sum::<u64>() + want.pal_probes.len() as u64 + want.name_probes.len() as u64 * 2 + want.id_probes.len() as u64 * 4;
    ctx.eval(calls);
    ctx.outcome(hash64(&o));
    let mut ok = true;
    if !o.panics.is_empty() {
        let (l, m) = o.panics[0].clone();
        viol(format!("accessor-panic:{}:{}", strip_args(&l), sig_of(&m)), format!("{} panicked: {} (all: {:?})", l, m, o.panics));
        ok = false;
    }
    if !o.routes_agree {
        viol("routes-disagree".into(), o.route_mismatch.clone().unwrap_or_default());
        ok = false;
    }
    if pred.ub {
        // frame images are not comparable where the C++ reference is undefined
        for fr in o.frames.iter_mut() {
            fr.image = None;
        }
    }
    let mut e = pred.obs;
    if pred.ub {
        for fr in e.frames.iter_mut() {
            fr.image = None;
        }
    }
    if ok && e != o {
        let d = if ctx.violation_count.load(std::sync::atomic::Ordering::Relaxed) > 200 { "mismatch (details suppressed after 200 violations) : ".to_string() } else { first_diff(&e, &o) };
        let sig = format!("mismatch:{}", sig_of(d.split(" : ").next().unwrap_or("")));
        viol(sig, d);
        ok = false;
    }
    // the same images through another call order on a second, fresh load: cel images first (from the
    // last cell to the first), then the frames from the last to the first.  Model-free: compared with
    // the first walk, which has just been compared with the prediction.
    if ok && want.frame_images && want.cel_images && o.cels.len() <= 64 && o.frames.len() <= 16 && bytes.len() <= 65536 {
        if let Loaded::Ok(f2) = load(bytes) {
            let nl = o.num_layers;
            let mut p2 = Vec::new();
            let r = guarded(&mut p2, || "second walk".into(), || {
                for (k, c) in o.cels.iter().enumerate().rev() {
                    let (fr, l) = (k as u32 / nl.max(1), k as u32 % nl.max(1));
                    if let Some(img) = &c.image {
                        if observe::img_of(f2.cel(fr, l).image()) != *img {
                            return Some(format!("cel({},{}).image() as the first calls on a fresh load differs from the same call after the frames were rendered", fr, l));
                        }
                    }
                }
                for (k, fo) in o.frames.iter().enumerate().rev() {
                    if let Some(img) = &fo.image {
                        if observe::img_of(f2.frame(k as u32).image()) != *img {
                            return Some(format!("frame({}).image() after the cel images and the later frames differs from the same call in a front-to-back walk", k));
                        }
                    }
                }
                None
            });
            ctx.eval_n(0, o.cels.len() as u64 + o.frames.len() as u64);
            match r {
                Some(None) => {}
                Some(Some(msg)) => {
                    viol("call-order-dependent".into(), msg);
                    ok = false;
                }
                None => {
                    viol(format!("accessor-panic:second-walk:{}", sig_of(&p2[0].1)), format!("panic in the second (reverse-order) walk: {}", p2[0].1));
                    ok = false;
                }
            }
        }
    }
    Conf { obs: Some(o), ok }
}

pub fn strip_args(label: &str) -> String {
    match label.find('(') {
        Some(i) => label[..i].to_string(),
        None => label.to_string(),
    }
}
