//! Isolated worker processes for inputs that may abort the process.
//!
//! Child (`mc worker`): reads tasks from stdin, runs each on a thread with a 2 MiB
//! stack inside catch_unwind with the counting allocator armed, writes one result
//! record per task with raw write(2).
//! Parent (`Pool`): N threads, each owning one child; tasks are handed out one at a
//! time from a shared counter, so a dead child is attributed to exactly the one
//! un-acknowledged input, classified, and the child restarted.

use crate::alloc;
use crate::common::{err_variant, load, sig_of, Loaded};
use crate::observe;
use mc_core::explore::hash64;
use mc_core::obs::Want;
use std::io::{Read, Write};
use std::os::unix::io::AsRawFd;
use std::os::unix::process::ExitStatusExt;
use std::process::{Child, ChildStdin, ChildStdout, Command, Stdio};
use std::sync::atomic::{AtomicUsize, Ordering::Relaxed};
use std::time::{Duration, Instant};

pub const KIND_LOAD: u32 = 1;
pub const KIND_LOAD_WALK: u32 = 2;
pub const KIND_LOAD_WALK_NOIMG: u32 = 3;
/// write the input to a temporary file and load it with `AsepriteFile::read_file`
pub const KIND_LOAD_FILE: u32 = 4;
/// several files loaded one after the other in the same process (see `run_seq`)
pub const KIND_LOAD_SEQ: u32 = 5;

#[derive(Clone, Debug, PartialEq, Eq, Hash)]
pub enum Status {
    /// loaded (and, for walk kinds, every accessor returned)
    Ok,
    /// load returned an error value (variant name in msg)
    Err,
    /// load panicked
    Panic,
    /// an accessor panicked after a successful load
    WalkPanic,
    /// process died: signal or unexpected exit code
    Abort(String),
    /// allocator budget exceeded (peak = live bytes at that moment, largest = request)
    Budget,
    Timeout,
}

#[derive(Clone, Debug)]
pub struct TaskResult {
    pub status: Status,
    /// peak live heap bytes above the level at task entry, during load
    pub peak: u64,
    pub largest: u64,
    pub msg: String,
    /// 64-bit digest of the observation (walk kinds, status Ok)
    pub digest: u64,
    pub wall: f64,
}

// ------------------------------------------------------------------------------ child

fn write_all_fd(buf: &[u8]) {
    let mut off = 0;
    while off < buf.len() {
        let n = unsafe { libc::write(1, buf[off..].as_ptr() as *const libc::c_void, buf.len() - off) };
        if n <= 0 {
            unsafe { libc::_exit(3) };
        }
        off += n as usize;
    }
}

fn send_result(status: u32, peak: u64, largest: u64, digest: u64, msg: &str) {
    let m = msg.as_bytes();
    let mut rec = Vec::with_capacity(32 + m.len());
    rec.extend_from_slice(&status.to_le_bytes());
    rec.extend_from_slice(&peak.to_le_bytes());
    rec.extend_from_slice(&largest.to_le_bytes());
    rec.extend_from_slice(&((m.len() + 8) as u32).to_le_bytes());
    rec.extend_from_slice(&digest.to_le_bytes());
    rec.extend_from_slice(m);
    write_all_fd(&rec);
}

pub fn walk_want(images: bool) -> Want {
    let mut w = Want::all();
    w.debug_fmt = true;
    w.pal_probes = vec![0, 1, 2, 3, 255, 256, u32::MAX];
    w.name_probes = vec!["".into(), "Layer 1".into(), "l".into()];
    w.id_probes = vec![0, 1, 2, 3, u32::MAX];
    if !images {
        w.frame_images = false;
        w.cel_images = false;
        w.tileset_images = false;
    }
    w
}

fn run_task(kind: u32, budget: u64, bytes: &[u8]) {
    use std::sync::atomic::Ordering::Relaxed as R;
    if kind == KIND_LOAD_SEQ {
        return run_seq(bytes);
    }
    let base = alloc::LIVE.load(R);
    alloc::PEAK.store(base, R);
    alloc::LARGEST.store(0, R);
    alloc::LIMIT.store(base.saturating_add(budget.min(i64::MAX as u64 / 2) as i64), R);
    let loaded = if kind == KIND_LOAD_FILE {
        let path = std::env::temp_dir().join(format!("mcw-{}.aseprite", std::process::id()));
        match std::fs::write(&path, bytes) {
            Ok(()) => {
                let r = std::panic::catch_unwind(|| asefile::AsepriteFile::read_file(&path));
                let _ = std::fs::remove_file(&path);
                match r {
                    Ok(Ok(f)) => Loaded::Ok(f),
                    Ok(Err(e)) => Loaded::Err(e),
                    Err(_) => Loaded::Panic(observe::take_panic()),
                }
            }
            Err(e) => {
                send_result(9, 0, 0, 0, &format!("machinery: cannot write temp file: {}", e));
                return;
            }
        }
    } else {
        load(bytes)
    };
    let peak = (alloc::PEAK.load(R) - base).max(0) as u64;
    let largest = alloc::LARGEST.load(R);
    // after load: only a generous safety cap for the walk
    alloc::LIMIT.store(base.saturating_add(3 << 30), R);
    match loaded {
        Loaded::Err(e) => send_result(1, peak, largest, 0, &format!("{}: {}", err_variant(&e), e)),
        Loaded::Panic(m) => send_result(2, peak, largest, 0, &m),
        Loaded::Ok(f) => {
            if kind == KIND_LOAD || kind == KIND_LOAD_FILE {
                drop(f);
                send_result(0, peak, largest, 0, "");
                return;
            }
            let (st, digest, msg) = walk_status(&f, kind == KIND_LOAD_WALK);
            send_result(st, peak, largest, digest, &msg);
        }
    }
}

/// full walk of a loaded sprite: (status code, observation digest, message)
fn walk_status(f: &asefile::AsepriteFile, images: bool) -> (u32, u64, String) {
    let want = walk_want(images);
    let mut p = Vec::new();
    let o = observe::guarded(&mut p, || "observe".into(), || observe::observe(f, &want));
    match o {
        None => (3, 0, format!("observe: {}", p[0].1)),
        Some(o) => {
            if let Some((l, m)) = o.panics.first() {
                (3, 0, format!("{}: {}", l, m))
            } else if !o.routes_agree {
                (3, 0, format!("routes disagree: {}", o.route_mismatch.clone().unwrap_or_default()))
            } else {
                // documented dimensions
                let mut bad = None;
                for fr in &o.frames {
                    if let Some(i) = &fr.image {
                        if (i.w as usize, i.h as usize) != (o.width, o.height) {
                            bad = Some(format!("frame image {}x{} on a {}x{} canvas", i.w, i.h, o.width, o.height));
                        }
                    }
                }
                for c in &o.cels {
                    if let Some(i) = &c.image {
                        if (i.w as usize, i.h as usize) != (o.width, o.height) {
                            bad = Some(format!("cel image {}x{} on a {}x{} canvas", i.w, i.h, o.width, o.height));
                        }
                    }
                }
                for t in &o.tilesets {
                    if let Some(i) = &t.image {
                        if (i.w, i.h as u64) != (t.tile_size.0 as u32, t.tile_size.1 as u64 * t.count as u64) {
                            bad = Some(format!("tileset image {}x{} for {} tiles of {:?}", i.w, i.h, t.count, t.tile_size));
                        }
                    }
                    for i in &t.tile_images {
                        if (i.w, i.h) != (t.tile_size.0 as u32, t.tile_size.1 as u32) {
                            bad = Some(format!("tile image {}x{} for tile size {:?}", i.w, i.h, t.tile_size));
                        }
                    }
                }
                match bad {
                    Some(b) => (3, 0, format!("dimensions: {}", b)),
                    None => (0, hash64(&o), String::new()),
                }
            }
        }
    }
}

/// input: u32 n, n x (u64 length, u8 walk), then the n files back to back.  All n are loaded
/// one after the other in this process; each load's peak is measured from its own entry
/// level.  msg: one line per load "status|peak|largest|digest(hex)|message".
fn run_seq(bytes: &[u8]) {
    use std::sync::atomic::Ordering::Relaxed as R;
    let bad = || send_result(9, 0, 0, 0, "machinery: malformed sequence task");
    if bytes.len() < 4 {
        return bad();
    }
    let n = u32::from_le_bytes(bytes[0..4].try_into().unwrap()) as usize;
    let mut off = 4;
    let mut parts = Vec::new();
    for _ in 0..n {
        if bytes.len() < off + 9 {
            return bad();
        }
        parts.push((u64::from_le_bytes(bytes[off..off + 8].try_into().unwrap()) as usize, bytes[off + 8]));
        off += 9;
    }
    let mut lines = Vec::new();
    let (mut worst_peak, mut worst_largest) = (0u64, 0u64);
    for (len, walk) in parts {
        if bytes.len() < off + len {
            return bad();
        }
        let b = &bytes[off..off + len];
        off += len;
        let base = alloc::LIVE.load(R);
        alloc::PEAK.store(base, R);
        alloc::LARGEST.store(0, R);
        alloc::LIMIT.store(base.saturating_add(3 << 30), R);
        let loaded = load(b);
        let peak = (alloc::PEAK.load(R) - base).max(0) as u64;
        let largest = alloc::LARGEST.load(R);
        worst_peak = worst_peak.max(peak);
        worst_largest = worst_largest.max(largest);
        let (st, digest, msg) = match loaded {
            Loaded::Err(e) => (1, 0, format!("{}: {}", err_variant(&e), e)),
            Loaded::Panic(m) => (2, 0, m),
            Loaded::Ok(f) => {
                if walk != 0 {
                    walk_status(&f, true)
                } else {
                    (0, 0, String::new())
                }
            }
        };
        lines.push(format!("{}|{}|{}|{:016x}|{}", st, peak, largest, digest, msg.replace('\n', " ")));
    }
    send_result(0, worst_peak, worst_largest, hash64(&lines), &lines.join("\n"));
}

/// one load of a sequence task, as reported by the child
#[derive(Clone, Debug, PartialEq, Eq)]
pub struct SeqItem {
    pub status: u32,
    pub peak: u64,
    pub largest: u64,
    pub digest: u64,
    pub msg: String,
}

pub fn seq_task(files: &[(&[u8], bool)]) -> Vec<u8> {
    let mut v = Vec::new();
    v.extend_from_slice(&(files.len() as u32).to_le_bytes());
    for (b, walk) in files {
        v.extend_from_slice(&(b.len() as u64).to_le_bytes());
        v.push(*walk as u8);
    }
    for (b, _) in files {
        v.extend_from_slice(b);
    }
    v
}

pub fn seq_items(r: &TaskResult) -> Vec<SeqItem> {
    r.msg
        .lines()
        .filter_map(|l| {
            let mut p = l.splitn(5, '|');
            Some(SeqItem { status: p.next()?.parse().ok()?, peak: p.next()?.parse().ok()?, largest: p.next()?.parse().ok()?, digest: u64::from_str_radix(p.next()?, 16).ok()?, msg: p.next().unwrap_or("").to_string() })
        })
        .collect()
}

pub fn child_main() -> ! {
    alloc::TRACK.store(true, std::sync::atomic::Ordering::SeqCst);
    let h = std::thread::Builder::new()
        .name("task".into())
        .stack_size(2 * 1024 * 1024)
        .spawn(|| {
            let mut stdin = std::io::stdin().lock();
            let mut hdr = [0u8; 20];
            let mut buf: Vec<u8> = Vec::new();
            loop {
                if stdin.read_exact(&mut hdr).is_err() {
                    break;
                }
                let kind = u32::from_le_bytes(hdr[0..4].try_into().unwrap());
                let budget = u64::from_le_bytes(hdr[4..12].try_into().unwrap());
                let len = u64::from_le_bytes(hdr[12..20].try_into().unwrap()) as usize;
                buf.clear();
                buf.resize(len, 0);
                if stdin.read_exact(&mut buf).is_err() {
                    break;
                }
                run_task(kind, budget, &buf);
            }
        })
        .unwrap();
    let _ = h.join();
    std::process::exit(0)
}

// ----------------------------------------------------------------------------- parent

struct Proc {
    child: Child,
    stdin: ChildStdin,
    stdout: ChildStdout,
}

fn spawn(bin: &str) -> Proc {
    let mut child = Command::new(bin).arg("worker").stdin(Stdio::piped()).stdout(Stdio::piped()).stderr(Stdio::null()).spawn().unwrap_or_else(|e| panic!("machinery error: cannot start worker {}: {}", bin, e));
    let stdin = child.stdin.take().unwrap();
    let stdout = child.stdout.take().unwrap();
    Proc { child, stdin, stdout }
}

/// read exactly n bytes with a deadline; Ok(None) = EOF, Err = timeout
fn read_deadline(out: &mut ChildStdout, n: usize, deadline: Instant) -> Result<Option<Vec<u8>>, ()> {
    let mut buf = vec![0u8; n];
    let mut got = 0;
    let fd = out.as_raw_fd();
    while got < n {
        let now = Instant::now();
        if now >= deadline {
            return Err(());
        }
        let ms = (deadline - now).as_millis().min(1000) as i32;
        let mut pfd = libc::pollfd { fd, events: libc::POLLIN, revents: 0 };
        let r = unsafe { libc::poll(&mut pfd, 1, ms.max(1)) };
        if r == 0 {
            continue;
        }
        match out.read(&mut buf[got..]) {
            Ok(0) => return Ok(None),
            Ok(k) => got += k,
            Err(e) if e.kind() == std::io::ErrorKind::Interrupted => {}
            Err(_) => return Ok(None),
        }
    }
    Ok(Some(buf))
}

fn classify_exit(st: std::process::ExitStatus) -> String {
    if let Some(sig) = st.signal() {
        let name = match sig {
            11 => "SIGSEGV",
            6 => "SIGABRT",
            7 => "SIGBUS",
            9 => "SIGKILL",
            4 => "SIGILL",
            _ => "signal",
        };
        format!("{}({})", name, sig)
    } else {
        format!("exit({})", st.code().unwrap_or(-1))
    }
}

pub struct Pool {
    pub bin: String,
    pub workers: usize,
    pub timeout: Duration,
}

impl Pool {
    pub fn new(profile: &str, workers: usize, timeout_s: f64) -> Pool {
        let bin = format!("{}/target/{}/mcw", crate::root().display(), profile);
        if !std::path::Path::new(&bin).is_file() {
            eprintln!("machinery error: worker binary {} not built", bin);
            std::process::exit(2);
        }
        Pool { bin, workers, timeout: Duration::from_secs_f64(timeout_s) }
    }

    /// Runs `n` tasks; `make(i)` yields (kind, budget, input bytes); `done(i, result)` is
    /// called from worker threads.
    pub fn run(&self, n: usize, make: &(dyn Fn(usize) -> (u32, u64, Vec<u8>) + Sync), done: &(dyn Fn(usize, &[u8], TaskResult) + Sync)) {
        let next = AtomicUsize::new(0);
        std::thread::scope(|s| {
            for _ in 0..self.workers.min(n.max(1)) {
                s.spawn(|| {
                    let mut p: Option<Proc> = None;
                    loop {
                        let i = next.fetch_add(1, Relaxed);
                        if i >= n {
                            break;
                        }
                        let (kind, budget, bytes) = make(i);
                        if p.is_none() {
                            p = Some(spawn(&self.bin));
                        }
                        let pr = p.as_mut().unwrap();
                        let t0 = Instant::now();
                        let mut hdr = Vec::with_capacity(20);
                        hdr.extend_from_slice(&kind.to_le_bytes());
                        hdr.extend_from_slice(&budget.to_le_bytes());
                        hdr.extend_from_slice(&(bytes.len() as u64).to_le_bytes());
                        let sent = pr.stdin.write_all(&hdr).and_then(|_| pr.stdin.write_all(&bytes)).and_then(|_| pr.stdin.flush());
                        let deadline = Instant::now() + self.timeout;
                        let res = if sent.is_err() {
                            Ok(None)
                        } else {
                            read_deadline(&mut pr.stdout, 24, deadline)
                        };
                        let result = match res {
                            Ok(Some(h)) => {
                                let status = u32::from_le_bytes(h[0..4].try_into().unwrap());
                                let peak = u64::from_le_bytes(h[4..12].try_into().unwrap());
                                let largest = u64::from_le_bytes(h[12..20].try_into().unwrap());
                                let mlen = u32::from_le_bytes(h[20..24].try_into().unwrap()) as usize;
                                let (digest, msg) = if mlen >= 8 {
                                    match read_deadline(&mut pr.stdout, mlen, deadline) {
                                        Ok(Some(m)) => (u64::from_le_bytes(m[0..8].try_into().unwrap()), String::from_utf8_lossy(&m[8..]).to_string()),
                                        _ => (0, "<truncated result>".into()),
                                    }
                                } else {
                                    (0, String::new())
                                };
                                let st = match status {
                                    0 => Status::Ok,
                                    1 => Status::Err,
                                    2 => Status::Panic,
                                    3 => Status::WalkPanic,
                                    5 => {
                                        // the child has exited (77) after writing this record
                                        let _ = pr.child.wait();
                                        p = None;
                                        Status::Budget
                                    }
                                    x => Status::Abort(format!("bad status {}", x)),
                                };
                                TaskResult { status: st, peak, largest, msg, digest, wall: t0.elapsed().as_secs_f64() }
                            }
                            Ok(None) => {
                                // child died without a record: abort
                                let st = pr.child.wait().map(classify_exit).unwrap_or_else(|_| "unknown".into());
                                p = None;
                                TaskResult { status: Status::Abort(st), peak: 0, largest: 0, msg: String::new(), digest: 0, wall: t0.elapsed().as_secs_f64() }
                            }
                            Err(()) => {
                                let _ = pr.child.kill();
                                let _ = pr.child.wait();
                                p = None;
                                TaskResult { status: Status::Timeout, peak: 0, largest: 0, msg: String::new(), digest: 0, wall: t0.elapsed().as_secs_f64() }
                            }
                        };
                        done(i, &bytes, result);
                    }
                    if let Some(mut pr) = p {
                        drop(pr.stdin);
                        let _ = pr.child.wait();
                    }
                });
            }
        });
    }
}

pub fn status_sig(r: &TaskResult) -> String {
    match &r.status {
        Status::Ok => "ok".into(),
        Status::Err => format!("err:{}", r.msg.split(':').next().unwrap_or("")),
        Status::Panic => format!("load-panic:{}", sig_of(&r.msg)),
        Status::WalkPanic => {
            let (l, m) = r.msg.split_once(": ").unwrap_or((&r.msg, ""));
            format!("accessor-panic:{}:{}", crate::common::strip_args(l), sig_of(m))
        }
        Status::Abort(s) => format!("abort:{}", s),
        Status::Budget => "over-budget".into(),
        Status::Timeout => "timeout".into(),
    }
}
