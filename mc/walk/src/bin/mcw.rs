//! Worker binary: one per build profile (`checked`, `unopt`, `plain`).
#[global_allocator]
static GLOBAL: mc_walk::alloc::Counting = mc_walk::alloc::Counting;

fn main() {
    mc_walk::observe::install_panic_hook();
    mc_walk::worker::child_main()
}
