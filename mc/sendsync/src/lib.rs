//! C16(a): compile-time assertions.  This crate compiles iff the sprite type and every
//! borrowed handle type are `Send + Sync`.
use asefile::*;

fn assert_send_sync<T: Send + Sync>() {}

pub fn all() {
    assert_send_sync::<AsepriteFile>();
    assert_send_sync::<Frame<'static>>();
    assert_send_sync::<Layer<'static>>();
    assert_send_sync::<Cel<'static>>();
    assert_send_sync::<Tilemap<'static>>();
    assert_send_sync::<Tileset>();
    assert_send_sync::<TilesetsById>();
    assert_send_sync::<Tile>();
    assert_send_sync::<ColorPalette>();
    assert_send_sync::<ColorPaletteEntry>();
    assert_send_sync::<Tag>();
    assert_send_sync::<Slice>();
    assert_send_sync::<SliceKey>();
    assert_send_sync::<Slice9>();
    assert_send_sync::<ExternalFile>();
    assert_send_sync::<ExternalFilesById>();
    assert_send_sync::<UserData>();
    assert_send_sync::<LayersIter<'static>>();
    assert_send_sync::<AsepriteParseError>();
    assert_send_sync::<util::PaletteMapper>();
}
