// Builds the C++ reference blend functions (ref/refblend.cc) into a static library.
// No `cc` crate: one explicit compiler invocation so the floating-point flags are exact.
use std::path::PathBuf;
use std::process::Command;

fn main() {
    let out = PathBuf::from(std::env::var("OUT_DIR").unwrap());
    let src = "ref/refblend.cc";
    println!("cargo:rerun-if-changed={}", src);
    println!("cargo:rerun-if-changed=build.rs");
    let obj = out.join("refblend.o");
    let lib = out.join("librefblend.a");
    let st = Command::new("c++")
        .args(["-std=c++17", "-O2", "-fPIC", "-ffp-contract=off", "-fno-fast-math", "-fno-exceptions", "-fno-rtti", "-msse2", "-mfpmath=sse", "-c", src, "-o"])
        .arg(&obj)
        .status()
        .expect("c++ not runnable");
    assert!(st.success(), "compiling refblend.cc failed");
    let _ = std::fs::remove_file(&lib);
    let st = Command::new("ar").arg("crs").arg(&lib).arg(&obj).status().expect("ar not runnable");
    assert!(st.success(), "ar failed");
    println!("cargo:rustc-link-search=native={}", out.display());
    println!("cargo:rustc-link-lib=static=refblend");
}
