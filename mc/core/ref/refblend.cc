// Reference blend functions: Aseprite's src/doc/blend_funcs.cpp ("new layer blending
// method"), in the original C idiom.
//
// The parts between the VERBATIM markers are copied from /repo/ref/dummy.cc (which the
// repository's author extracted from Aseprite).  The remaining blenders are transcribed
// from Aseprite's blend_funcs.cpp; the macro texts quoted in /repo/src/blend.rs comments
// corroborate them.  Build with -ffp-contract=off (no FMA contraction), x86-64 SSE2.
//
// `ub` collects evaluations whose C++ behaviour is undefined (a double -> int conversion
// of a non-finite or out-of-range value); the caller excludes those points from the
// bit-for-bit comparison.

#include <stdint.h>
#include <math.h>

typedef uint32_t color_t;

// ---- VERBATIM from ref/dummy.cc ------------------------------------------------------
#define ONE_HALF 0x80
#define G_SHIFT 8

const uint32_t rgba_r_shift = 0;
const uint32_t rgba_g_shift = 8;
const uint32_t rgba_b_shift = 16;
const uint32_t rgba_a_shift = 24;

const uint32_t rgba_rgb_mask = 0x00ffffff;
const uint32_t rgba_a_mask = 0xff000000;

static inline uint8_t rgba_getr(uint32_t c) { return (c >> rgba_r_shift) & 0xff; }
static inline uint8_t rgba_getg(uint32_t c) { return (c >> rgba_g_shift) & 0xff; }
static inline uint8_t rgba_getb(uint32_t c) { return (c >> rgba_b_shift) & 0xff; }
static inline uint8_t rgba_geta(uint32_t c) { return (c >> rgba_a_shift) & 0xff; }

static inline uint32_t rgba(uint8_t r, uint8_t g, uint8_t b, uint8_t a) {
  return (((uint32_t)r << rgba_r_shift) |
          ((uint32_t)g << rgba_g_shift) |
          ((uint32_t)b << rgba_b_shift) |
          ((uint32_t)a << rgba_a_shift));
}

#define MUL_UN8(a, b, t)                                             \
    ((t) = (a) * (uint16_t)(b) + ONE_HALF, ((((t) >> G_SHIFT ) + (t) ) >> G_SHIFT ))

static color_t rgba_blender_merge(color_t backdrop, color_t src, int opacity)
{
  int Br, Bg, Bb, Ba;
  int Sr, Sg, Sb, Sa;
  int Rr, Rg, Rb, Ra;
  int t;

  Br = rgba_getr(backdrop);
  Bg = rgba_getg(backdrop);
  Bb = rgba_getb(backdrop);
  Ba = rgba_geta(backdrop);

  Sr = rgba_getr(src);
  Sg = rgba_getg(src);
  Sb = rgba_getb(src);
  Sa = rgba_geta(src);

  if (Ba == 0) {
    Rr = Sr;
    Rg = Sg;
    Rb = Sb;
  }
  else if (Sa == 0) {
    Rr = Br;
    Rg = Bg;
    Rb = Bb;
  }
  else {
    Rr = Br + MUL_UN8((Sr - Br), opacity, t);
    Rg = Bg + MUL_UN8((Sg - Bg), opacity, t);
    Rb = Bb + MUL_UN8((Sb - Bb), opacity, t);
  }
  Ra = Ba + MUL_UN8((Sa - Ba), opacity, t);
  if (Ra == 0)
    Rr = Rg = Rb = 0;

  return rgba(Rr, Rg, Rb, Ra);
}

// range flag: set when an integer channel value handed to rgba() lies outside 0..255
// (it would be silently truncated by the uint8_t parameter).  Reported separately.
static thread_local int g_range = 0;
static thread_local int g_ub = 0;

static inline void chk(int v) { if (v < 0 || v > 255) g_range = 1; }

static color_t rgba_blender_normal(color_t backdrop, color_t src, int opacity)
{
  int t;

  if (!(backdrop & rgba_a_mask)) {
    int a = rgba_geta(src);
    a = MUL_UN8(a, opacity, t);
    a <<= rgba_a_shift;
    return (src & rgba_rgb_mask) | a;
  }
  else if (!(src & rgba_a_mask)) {
    return backdrop;
  }

  const int Br = rgba_getr(backdrop);
  const int Bg = rgba_getg(backdrop);
  const int Bb = rgba_getb(backdrop);
  const int Ba = rgba_geta(backdrop);

  const int Sr = rgba_getr(src);
  const int Sg = rgba_getg(src);
  const int Sb = rgba_getb(src);
  int Sa = rgba_geta(src);
  Sa = MUL_UN8(Sa, opacity, t);

  // Ra = Sa + Ba*(1-Sa)
  //    = Sa + Ba - Ba*Sa
  const int Ra = Sa + Ba - MUL_UN8(Ba, Sa, t);

  const int Rr = Br + (Sr-Br) * Sa / Ra;
  const int Rg = Bg + (Sg-Bg) * Sa / Ra;
  const int Rb = Bb + (Sb-Bb) * Sa / Ra;

  chk(Rr); chk(Rg); chk(Rb); chk(Ra);
  return rgba(Rr, Rg, Rb, Ra);
}

#define blend_multiply(b, s, t)   (MUL_UN8((b), (s), (t)))
// ---- end VERBATIM ---------------------------------------------------------------------

// ---- transcribed from Aseprite blend_funcs.cpp ----------------------------------------
#define MIN(x,y)     (((x) < (y)) ? (x) : (y))
#define MAX(x,y)     (((x) > (y)) ? (x) : (y))
#define ABS(x)       (((x) < 0) ? -(x) : (x))
#define DIV_UN8(a, b)                                    \
    (((uint16_t) (a) * 0xff + ((b) / 2)) / (b))

#define blend_screen(b, s, t)     ((b) + (s) - MUL_UN8((b), (s), (t)))
#define blend_overlay(b, s, t)    (blend_hard_light(s, b, t))
#define blend_darken(b, s)        (MIN((b), (s)))
#define blend_lighten(b, s)       (MAX((b), (s)))
#define blend_hard_light(b, s, t) ((s) < 128 ?                          \
                                   blend_multiply((b), (s)<<1, (t)):    \
                                   blend_screen((b), ((s)<<1)-255, (t)))
#define blend_difference(b, s)    (ABS((b) - (s)))
#define blend_exclusion(b, s, t)  ((t) = MUL_UN8((b), (s), (t)), ((b) + (s) - 2*(t)))

static inline uint32_t blend_divide(uint32_t b, uint32_t s)
{
  if (b == 0)
    return 0;
  else if (b >= s)
    return 255;
  else
    return DIV_UN8(b, s); // return b / s
}

static inline uint32_t blend_color_dodge(uint32_t b, uint32_t s)
{
  if (b == 0)
    return 0;

  s = (255 - s);
  if (b >= s)
    return 255;
  else
    return DIV_UN8(b, s); // return b / (1-s)
}

static inline uint32_t blend_color_burn(uint32_t b, uint32_t s)
{
  if (b == 255)
    return 255;

  b = (255 - b);
  if (b >= s)
    return 0;
  else
    return 255 - DIV_UN8(b, s); // return 1 - ((1-b)/s)
}

static inline uint32_t blend_soft_light(uint32_t _b, uint32_t _s)
{
  double b = _b / 255.0;
  double s = _s / 255.0;
  double r, d;

  if (b <= 0.25)
    d = ((16*b-12)*b+4)*b;
  else
    d = sqrt(b);

  if (s <= 0.5)
    r = b - (1.0 - 2.0 * s) * b * (1.0 - b);
  else
    r = b + (2.0 * s - 1.0) * (d - b);

  double v = r * 255 + 0.5;
  if (!(v > -1.0 && v < 4294967296.0)) { g_ub = 1; return 0; }
  return (uint32_t)(v);
}

#define CHANNEL_BLENDER3(name, expr_r, expr_g, expr_b)                               \
static color_t rgba_blender_##name(color_t backdrop, color_t src, int opacity)       \
{                                                                                    \
  int t; (void)t;                                                                    \
  int r = expr_r;                                                                    \
  int g = expr_g;                                                                    \
  int b = expr_b;                                                                    \
  chk(r); chk(g); chk(b);                                                            \
  src = rgba(r, g, b, 0) | (src & rgba_a_mask);                                      \
  return rgba_blender_normal(backdrop, src, opacity);                                \
}

#define BR rgba_getr(backdrop)
#define BG rgba_getg(backdrop)
#define BB rgba_getb(backdrop)
#define SR rgba_getr(src)
#define SG rgba_getg(src)
#define SB rgba_getb(src)

CHANNEL_BLENDER3(multiply,    blend_multiply(BR, SR, t),   blend_multiply(BG, SG, t),   blend_multiply(BB, SB, t))
CHANNEL_BLENDER3(screen,      blend_screen(BR, SR, t),     blend_screen(BG, SG, t),     blend_screen(BB, SB, t))
CHANNEL_BLENDER3(overlay,     blend_overlay(BR, SR, t),    blend_overlay(BG, SG, t),    blend_overlay(BB, SB, t))
CHANNEL_BLENDER3(darken,      blend_darken(BR, SR),        blend_darken(BG, SG),        blend_darken(BB, SB))
CHANNEL_BLENDER3(lighten,     blend_lighten(BR, SR),       blend_lighten(BG, SG),       blend_lighten(BB, SB))
CHANNEL_BLENDER3(color_dodge, blend_color_dodge(BR, SR),   blend_color_dodge(BG, SG),   blend_color_dodge(BB, SB))
CHANNEL_BLENDER3(color_burn,  blend_color_burn(BR, SR),    blend_color_burn(BG, SG),    blend_color_burn(BB, SB))
CHANNEL_BLENDER3(hard_light,  blend_hard_light(BR, SR, t), blend_hard_light(BG, SG, t), blend_hard_light(BB, SB, t))
CHANNEL_BLENDER3(soft_light,  blend_soft_light(BR, SR),    blend_soft_light(BG, SG),    blend_soft_light(BB, SB))
CHANNEL_BLENDER3(difference,  blend_difference(BR, SR),    blend_difference(BG, SG),    blend_difference(BB, SB))
CHANNEL_BLENDER3(exclusion,   blend_exclusion(BR, SR, t),  blend_exclusion(BG, SG, t),  blend_exclusion(BB, SB, t))
CHANNEL_BLENDER3(divide,      blend_divide(BR, SR),        blend_divide(BG, SG),        blend_divide(BB, SB))

static color_t rgba_blender_addition(color_t backdrop, color_t src, int opacity)
{
  int r = rgba_getr(backdrop) + rgba_getr(src);
  int g = rgba_getg(backdrop) + rgba_getg(src);
  int b = rgba_getb(backdrop) + rgba_getb(src);
  src = rgba(MIN(r, 255),
             MIN(g, 255),
             MIN(b, 255), 0) | (src & rgba_a_mask);
  return rgba_blender_normal(backdrop, src, opacity);
}

static color_t rgba_blender_subtract(color_t backdrop, color_t src, int opacity)
{
  int r = rgba_getr(backdrop) - rgba_getr(src);
  int g = rgba_getg(backdrop) - rgba_getg(src);
  int b = rgba_getb(backdrop) - rgba_getb(src);
  src = rgba(MAX(r, 0), MAX(g, 0), MAX(b, 0), 0) | (src & rgba_a_mask);
  return rgba_blender_normal(backdrop, src, opacity);
}

// ---- HSL helpers: VERBATIM from ref/dummy.cc (lum, sat via mind/maxd, clip_color,
// set_lum, set_sat with the original MIN/MID/MAX reference macros) ------------------------
static double lum(double r, double g, double b)
{
  return 0.3*r + 0.59*g + 0.11*b;
}

static double maxd(double a, double b) { if (a > b) { return a; } else { return b; } }
static double mind(double a, double b) { if (a < b) { return a; } else { return b; } }

static double sat(double r, double g, double b)
{
  return maxd(r, maxd(g, b)) - mind(r, mind(g, b));
}

static void clip_color(double& r, double& g, double& b)
{
  double l = lum(r, g, b);
  double n = mind(r, mind(g, b));
  double x = maxd(r, maxd(g, b));

  if (n < 0) {
    r = l + (((r - l) * l) / (l - n));
    g = l + (((g - l) * l) / (l - n));
    b = l + (((b - l) * l) / (l - n));
  }

  if (x > 1) {
    r = l + (((r - l) * (1 - l)) / (x - l));
    g = l + (((g - l) * (1 - l)) / (x - l));
    b = l + (((b - l) * (1 - l)) / (x - l));
  }
}

static void set_lum(double& r, double& g, double& b, double l)
{
  double d = l - lum(r, g, b);
  r += d;
  g += d;
  b += d;
  clip_color(r, g, b);
}

static void set_sat(double& r, double& g, double& b, double s)
{
#undef MIN
#undef MAX
#undef MID
#define MIN(x,y)     (((x) < (y)) ? (x) : (y))
#define MAX(x,y)     (((x) > (y)) ? (x) : (y))
#define MID(x,y,z)   ((x) > (y) ? ((y) > (z) ? (y) : ((x) > (z) ?    \
                       (z) : (x))) : ((y) > (z) ? ((z) > (x) ? (z) : \
                       (x)): (y)))

  double& min = MIN(r, MIN(g, b));
  double& mid = MID(r, g, b);
  double& max = MAX(r, MAX(g, b));

  if (max > min) {
    mid = ((mid - min)*s) / (max - min);
    max = s;
  }
  else
    mid = max = 0;

  min = 0;
}
// ---- end VERBATIM ---------------------------------------------------------------------

static inline int d2i(double v) {
  // int(255.0*x) in the original; undefined unless the truncated value fits an int
  if (!(v > -2147483649.0 && v < 2147483648.0)) { g_ub = 1; return 0; }
  return int(v);
}

static inline color_t hsl_finish(color_t backdrop, color_t src, int opacity, double r, double g, double b)
{
  int ir = d2i(255.0*r), ig = d2i(255.0*g), ib = d2i(255.0*b);
  chk(ir); chk(ig); chk(ib);
  src = rgba(ir, ig, ib, 0) | (src & rgba_a_mask);
  return rgba_blender_normal(backdrop, src, opacity);
}

static color_t rgba_blender_hsl_hue(color_t backdrop, color_t src, int opacity)
{
  double r = rgba_getr(backdrop)/255.0;
  double g = rgba_getg(backdrop)/255.0;
  double b = rgba_getb(backdrop)/255.0;
  double s = sat(r, g, b);
  double l = lum(r, g, b);

  r = rgba_getr(src)/255.0;
  g = rgba_getg(src)/255.0;
  b = rgba_getb(src)/255.0;

  set_sat(r, g, b, s);
  set_lum(r, g, b, l);

  return hsl_finish(backdrop, src, opacity, r, g, b);
}

static color_t rgba_blender_hsl_saturation(color_t backdrop, color_t src, int opacity)
{
  double r = rgba_getr(src)/255.0;
  double g = rgba_getg(src)/255.0;
  double b = rgba_getb(src)/255.0;
  double s = sat(r, g, b);

  r = rgba_getr(backdrop)/255.0;
  g = rgba_getg(backdrop)/255.0;
  b = rgba_getb(backdrop)/255.0;
  double l = lum(r, g, b);

  set_sat(r, g, b, s);
  set_lum(r, g, b, l);

  return hsl_finish(backdrop, src, opacity, r, g, b);
}

static color_t rgba_blender_hsl_color(color_t backdrop, color_t src, int opacity)
{
  double r = rgba_getr(backdrop)/255.0;
  double g = rgba_getg(backdrop)/255.0;
  double b = rgba_getb(backdrop)/255.0;
  double l = lum(r, g, b);

  r = rgba_getr(src)/255.0;
  g = rgba_getg(src)/255.0;
  b = rgba_getb(src)/255.0;

  set_lum(r, g, b, l);

  return hsl_finish(backdrop, src, opacity, r, g, b);
}

static color_t rgba_blender_hsl_luminosity(color_t backdrop, color_t src, int opacity)
{
  double r = rgba_getr(src)/255.0;
  double g = rgba_getg(src)/255.0;
  double b = rgba_getb(src)/255.0;
  double l = lum(r, g, b);

  r = rgba_getr(backdrop)/255.0;
  g = rgba_getg(backdrop)/255.0;
  b = rgba_getb(backdrop)/255.0;

  set_lum(r, g, b, l);

  return hsl_finish(backdrop, src, opacity, r, g, b);
}

// ---- VERBATIM from ref/dummy.cc: the "new blender method" wrapper ------------------------
#define RGBA_BLENDER_N(name)                                                    \
static color_t rgba_blender_##name##_n(color_t backdrop, color_t src, int opacity) {   \
  if (backdrop & rgba_a_mask) {                                                 \
    color_t normal = rgba_blender_normal(backdrop, src, opacity);               \
    color_t blend = rgba_blender_##name(backdrop, src, opacity);                \
    int Ba = rgba_geta(backdrop);                                               \
    color_t normalToBlendMerge = rgba_blender_merge(normal, blend, Ba);         \
    int t;                                                                      \
    int srcTotalAlpha = MUL_UN8(rgba_geta(src), opacity, t);                    \
    int compositeAlpha = MUL_UN8(Ba, srcTotalAlpha, t);                         \
    return rgba_blender_merge(normalToBlendMerge, blend, compositeAlpha);       \
  }                                                                             \
  else                                                                          \
    return rgba_blender_normal(backdrop, src, opacity);                         \
}
// ---- end VERBATIM ---------------------------------------------------------------------

RGBA_BLENDER_N(multiply)
RGBA_BLENDER_N(screen)
RGBA_BLENDER_N(overlay)
RGBA_BLENDER_N(darken)
RGBA_BLENDER_N(lighten)
RGBA_BLENDER_N(color_dodge)
RGBA_BLENDER_N(color_burn)
RGBA_BLENDER_N(hard_light)
RGBA_BLENDER_N(soft_light)
RGBA_BLENDER_N(difference)
RGBA_BLENDER_N(exclusion)
RGBA_BLENDER_N(hsl_hue)
RGBA_BLENDER_N(hsl_saturation)
RGBA_BLENDER_N(hsl_color)
RGBA_BLENDER_N(hsl_luminosity)
RGBA_BLENDER_N(addition)
RGBA_BLENDER_N(subtract)
RGBA_BLENDER_N(divide)

typedef color_t (*blend_fn)(color_t, color_t, int);

// order = the file format's blend mode numbers 0..18
static blend_fn table[19] = {
  rgba_blender_normal,
  rgba_blender_multiply_n,
  rgba_blender_screen_n,
  rgba_blender_overlay_n,
  rgba_blender_darken_n,
  rgba_blender_lighten_n,
  rgba_blender_color_dodge_n,
  rgba_blender_color_burn_n,
  rgba_blender_hard_light_n,
  rgba_blender_soft_light_n,
  rgba_blender_difference_n,
  rgba_blender_exclusion_n,
  rgba_blender_hsl_hue_n,
  rgba_blender_hsl_saturation_n,
  rgba_blender_hsl_color_n,
  rgba_blender_hsl_luminosity_n,
  rgba_blender_addition_n,
  rgba_blender_subtract_n,
  rgba_blender_divide_n,
};

extern "C" {

// flags: bit 0 = C++-undefined conversion met, bit 1 = a channel left 0..255 before truncation
uint32_t ref_blend(int mode, uint32_t backdrop, uint32_t src, int opacity, int* flags)
{
  g_ub = 0; g_range = 0;
  uint32_t r = table[mode](backdrop, src, opacity);
  *flags = g_ub | (g_range << 1);
  return r;
}

// out[i] = blend(mode, backdrop[i], src[i], opacity); fl[i] = flags
void ref_blend_row(int mode, const uint32_t* backdrop, const uint32_t* src, int opacity,
                   uint32_t n, uint32_t* out, uint8_t* fl)
{
  blend_fn f = table[mode];
  for (uint32_t i = 0; i < n; i++) {
    g_ub = 0; g_range = 0;
    out[i] = f(backdrop[i], src[i], opacity);
    fl[i] = (uint8_t)(g_ub | (g_range << 1));
  }
}

int ref_mul_un8(int a, int b) { int t; return MUL_UN8(a, b, t); }

}
