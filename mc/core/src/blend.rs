//! FFI to the C++ reference blend functions (ref/refblend.cc).

extern "C" {
    fn ref_blend(mode: i32, backdrop: u32, src: u32, opacity: i32, flags: *mut i32) -> u32;
    fn ref_blend_row(mode: i32, backdrop: *const u32, src: *const u32, opacity: i32, n: u32, out: *mut u32, fl: *mut u8);
    fn ref_mul_un8(a: i32, b: i32) -> i32;
}

pub const MODE_NAMES: [&str; 19] = [
    "normal", "multiply", "screen", "overlay", "darken", "lighten", "color_dodge", "color_burn", "hard_light", "soft_light", "difference", "exclusion",
    "hue", "saturation", "color", "luminosity", "addition", "subtract", "divide",
];

/// modes whose colour result is computed channel by channel
pub fn is_separable(mode: usize) -> bool {
    !(12..=15).contains(&mode)
}

pub const FLAG_UB: u8 = 1;
pub const FLAG_RANGE: u8 = 2;

#[inline]
pub fn pack(p: [u8; 4]) -> u32 {
    u32::from_le_bytes(p)
}
#[inline]
pub fn unpack(c: u32) -> [u8; 4] {
    c.to_le_bytes()
}

/// Reference blend of one pixel. Returns (result, flags).
pub fn blend(mode: usize, backdrop: [u8; 4], src: [u8; 4], opacity: u8) -> ([u8; 4], u8) {
    assert!(mode < 19);
    let mut fl = 0i32;
    let r = unsafe { ref_blend(mode as i32, pack(backdrop), pack(src), opacity as i32, &mut fl) };
    (unpack(r), fl as u8)
}

pub fn blend_row(mode: usize, backdrop: &[u32], src: &[u32], opacity: u8, out: &mut [u32], fl: &mut [u8]) {
    assert!(mode < 19);
    assert!(backdrop.len() == src.len() && out.len() == src.len() && fl.len() == src.len());
    unsafe { ref_blend_row(mode as i32, backdrop.as_ptr(), src.as_ptr(), opacity as i32, src.len() as u32, out.as_mut_ptr(), fl.as_mut_ptr()) }
}

/// MUL_UN8 of the reference (8-bit rounded product)
pub fn mul_un8(a: u8, b: u8) -> u8 {
    unsafe { ref_mul_un8(a as i32, b as i32) as u8 }
}

#[cfg(test)]
mod tests {
    use super::*;
    #[test]
    fn dummy_cc_examples() {
        // values printed by ref/dummy.cc's own main()/tests in the repository
        assert_eq!(mul_un8(255, 255), 255);
        assert_eq!(mul_un8(128, 255), 128);
        assert_eq!(mul_un8(0, 77), 0);
        let (r, f) = blend(0, [0, 205, 249, 255], [237, 118, 20, 255], 128);
        assert_eq!(f, 0);
        assert_eq!(r, [118, 162, 135, 255]);
    }
}
