//! Level-1 decoder: bytes -> `ase::File`, written from the file specification.  Used to
//! lift the GUI-produced corpus files into the model (machinery self-test: re-encoding
//! must reproduce the bytes, and the reference model must predict what the library
//! reports for them) and as real-world bases for fault enumeration.  Strict: anything
//! it does not understand is an error.

use crate::ase::*;
use flate2::read::ZlibDecoder;
use std::io::Read;

struct R<'a> {
    b: &'a [u8],
    o: usize,
}

impl<'a> R<'a> {
    fn need(&self, n: usize) -> Result<(), String> {
        if self.o + n > self.b.len() {
            Err(format!("need {} bytes at {} of {}", n, self.o, self.b.len()))
        } else {
            Ok(())
        }
    }
    fn u8(&mut self) -> Result<u8, String> {
        self.need(1)?;
        self.o += 1;
        Ok(self.b[self.o - 1])
    }
    fn u16(&mut self) -> Result<u16, String> {
        self.need(2)?;
        self.o += 2;
        Ok(u16::from_le_bytes([self.b[self.o - 2], self.b[self.o - 1]]))
    }
    fn i16(&mut self) -> Result<i16, String> {
        Ok(self.u16()? as i16)
    }
    fn u32(&mut self) -> Result<u32, String> {
        self.need(4)?;
        self.o += 4;
        Ok(u32::from_le_bytes([self.b[self.o - 4], self.b[self.o - 3], self.b[self.o - 2], self.b[self.o - 1]]))
    }
    fn i32(&mut self) -> Result<i32, String> {
        Ok(self.u32()? as i32)
    }
    fn take(&mut self, n: usize) -> Result<&'a [u8], String> {
        self.need(n)?;
        self.o += n;
        Ok(&self.b[self.o - n..self.o])
    }
    fn arr<const N: usize>(&mut self) -> Result<[u8; N], String> {
        let s = self.take(N)?;
        let mut a = [0u8; N];
        a.copy_from_slice(s);
        Ok(a)
    }
    fn string(&mut self) -> Result<Str, String> {
        let n = self.u16()? as usize;
        Ok(Str { bytes: self.take(n)?.to_vec(), len_override: None })
    }
    fn rest(&mut self) -> &'a [u8] {
        let s = &self.b[self.o..];
        self.o = self.b.len();
        s
    }
    fn left(&self) -> usize {
        self.b.len() - self.o
    }
}

fn inflate(z: &[u8]) -> Result<Vec<u8>, String> {
    let mut d = ZlibDecoder::new(z);
    let mut out = Vec::new();
    d.read_to_end(&mut out).map_err(|e| format!("zlib: {}", e))?;
    Ok(out)
}

pub fn parse(bytes: &[u8]) -> Result<File, String> {
    let mut r = R { b: bytes, o: 0 };
    let file_size = r.u32()?;
    let magic = r.u16()?;
    if magic != 0xA5E0 {
        return Err("magic".into());
    }
    let nframes = r.u16()?;
    let width = r.u16()?;
    let height = r.u16()?;
    let depth = r.u16()?;
    let flags = r.u32()?;
    let speed = r.u16()?;
    let ph1 = r.u32()?;
    let ph2 = r.u32()?;
    let transparent = r.u8()?;
    let ignore = r.arr::<3>()?;
    let ncolors = r.u16()?;
    let pixel_w = r.u8()?;
    let pixel_h = r.u8()?;
    let grid_x = r.i16()?;
    let grid_y = r.i16()?;
    let grid_w = r.u16()?;
    let grid_h = r.u16()?;
    let reserved = r.arr::<84>()?;
    let bpp = (depth / 8) as usize;
    let header = Header {
        file_size: if file_size as usize == bytes.len() { None } else { Some(file_size) },
        magic,
        frames: None,
        width,
        height,
        depth,
        flags,
        speed,
        ph1,
        ph2,
        transparent,
        ignore,
        ncolors,
        pixel_w,
        pixel_h,
        grid_x,
        grid_y,
        grid_w,
        grid_h,
        reserved,
    };
    let mut frames = Vec::new();
    for _ in 0..nframes {
        let fstart = r.o;
        let fsize = r.u32()? as usize;
        let fmagic = r.u16()?;
        if fmagic != 0xF1FA {
            return Err("frame magic".into());
        }
        let old = r.u16()?;
        let duration = r.u16()?;
        let fres = r.arr::<2>()?;
        let new = r.u32()?;
        let n = if new == 0 { old as u32 } else { new };
        let style = if new == 0 {
            CountStyle::OldOnly
        } else if old == 0xFFFF && n != 0xFFFF {
            CountStyle::NewOnly
        } else {
            CountStyle::Both
        };
        let mut fr = Frame { size: None, magic: fmagic, count_style: style, old_count: None, new_count: None, duration, reserved: fres, chunks: vec![] };
        if style == CountStyle::Both && old as u32 != n.min(0xFFFF) {
            fr.old_count = Some(old);
        }
        for _ in 0..n {
            let cstart = r.o;
            let csize = r.u32()? as usize;
            let cty = r.u16()?;
            if csize < 6 {
                return Err("chunk size".into());
            }
            let data = r.take(csize - 6)?;
            let (body, used) = parse_body(cty, data, bpp)?;
            let mut ch = Chunk::new(body);
            ch.trailing = data[used..].to_vec();
            let _ = cstart;
            fr.chunks.push(ch);
        }
        if r.o != fstart + fsize {
            return Err(format!("frame size {} but chunks end at {}", fsize, r.o - fstart));
        }
        frames.push(fr);
    }
    let tail = r.rest().to_vec();
    Ok(File { header, frames, tail })
}

fn parse_body(ty: u16, data: &[u8], bpp: usize) -> Result<(Body, usize), String> {
    let mut r = R { b: data, o: 0 };
    let body = match ty {
        0x0004 | 0x0011 => {
            let np = r.u16()?;
            let mut packets = Vec::new();
            for _ in 0..np {
                let skip = r.u8()?;
                let count = r.u8()?;
                let n = if count == 0 { 256 } else { count as usize };
                let mut colors = Vec::with_capacity(n);
                for _ in 0..n {
                    colors.push(r.arr::<3>()?);
                }
                packets.push(OldPacket { skip, count, colors });
            }
            let p = OldPalette { npackets: None, packets };
            if ty == 4 {
                Body::OldPalette04(p)
            } else {
                Body::OldPalette11(p)
            }
        }
        0x2004 => {
            let flags = r.u16()?;
            let lty = r.u16()?;
            let level = r.u16()?;
            let default_w = r.u16()?;
            let default_h = r.u16()?;
            let blend = r.u16()?;
            let opacity = r.u8()?;
            let reserved = r.arr::<3>()?;
            let name = r.string()?;
            let tileset = if lty == 2 { r.u32()? } else { 0 };
            Body::Layer(Layer { flags, ty: lty, level, default_w, default_h, blend, opacity, reserved, name, tileset, force_tileset_field: None })
        }
        0x2005 => {
            let layer = r.u16()?;
            let x = r.i16()?;
            let y = r.i16()?;
            let opacity = r.u8()?;
            let cty = r.u16()?;
            let z_index = r.i16()?;
            let reserved = r.arr::<5>()?;
            let body = match cty {
                0 => {
                    let w = r.u16()?;
                    let h = r.u16()?;
                    let d = r.take(w as usize * h as usize * bpp)?.to_vec();
                    CelBody::Raw { w, h, data: d }
                }
                1 => CelBody::Linked { frame: r.u16()? },
                2 => {
                    let w = r.u16()?;
                    let h = r.u16()?;
                    let z = r.rest().to_vec();
                    let d = inflate(&z)?;
                    CelBody::Compressed { w, h, data: d, z: Zlib::Verbatim(z) }
                }
                3 => {
                    let w = r.u16()?;
                    let h = r.u16()?;
                    let bits = r.u16()?;
                    let mask_id = r.u32()?;
                    let mask_xflip = r.u32()?;
                    let mask_yflip = r.u32()?;
                    let mask_rot = r.u32()?;
                    let reserved = r.arr::<10>()?;
                    let z = r.rest().to_vec();
                    let d = inflate(&z)?;
                    if bits != 32 || d.len() % 4 != 0 {
                        return Err("tilemap payload".into());
                    }
                    let tiles = d.chunks_exact(4).map(|c| u32::from_le_bytes([c[0], c[1], c[2], c[3]])).collect();
                    CelBody::Tilemap { w, h, bits, mask_id, mask_xflip, mask_yflip, mask_rot, reserved, tiles, tile_bytes_override: None, z: Zlib::Verbatim(z) }
                }
                _ => return Err("cel type".into()),
            };
            Body::Cel(Cel { layer, x, y, opacity, ty: None, z_index, reserved, body })
        }
        0x2006 => Body::CelExtra(CelExtra { flags: r.u32()?, x: r.u32()?, y: r.u32()?, w: r.u32()?, h: r.u32()?, reserved: r.arr::<16>()? }),
        0x2007 => {
            let pty = r.u16()?;
            let flags = r.u16()?;
            let gamma = r.u32()?;
            let reserved = r.arr::<8>()?;
            let icc = if pty == 2 {
                let n = r.u32()? as usize;
                Some(r.take(n)?.to_vec())
            } else {
                None
            };
            Body::ColorProfile(ColorProfile { ty: pty, flags, gamma, reserved, icc })
        }
        0x2008 => {
            let n = r.u32()?;
            let reserved = r.arr::<8>()?;
            let mut entries = Vec::new();
            for _ in 0..n {
                entries.push(ExtFile { id: r.u32()?, ty: r.u8()?, reserved: r.arr::<7>()?, name: r.string()? });
            }
            Body::ExternalFiles(ExternalFiles { count: None, reserved, entries })
        }
        0x2016 => {
            let x = r.i16()?;
            let y = r.i16()?;
            let w = r.u16()?;
            let h = r.u16()?;
            let reserved = r.arr::<8>()?;
            let name = r.string()?;
            let n = h as usize * ((w as usize + 7) / 8);
            let bitmap = r.take(n)?.to_vec();
            Body::Mask(Mask { x, y, w, h, reserved, name, bitmap })
        }
        0x2017 => Body::Path,
        0x2018 => {
            let n = r.u16()?;
            let reserved = r.arr::<8>()?;
            let mut tags = Vec::new();
            for _ in 0..n {
                tags.push(Tag { from: r.u16()?, to: r.u16()?, dir: r.u8()?, repeat: r.u16()?, reserved: r.arr::<6>()?, color: r.arr::<3>()?, extra: r.u8()?, name: r.string()? });
            }
            Body::Tags(Tags { count: None, reserved, tags })
        }
        0x2019 => {
            let size = r.u32()?;
            let first = r.u32()?;
            let last = r.u32()?;
            let reserved = r.arr::<8>()?;
            let mut entries = Vec::new();
            if last < first {
                return Err("palette range".into());
            }
            for _ in first..=last {
                let flags = r.u16()?;
                let rgba = r.arr::<4>()?;
                let name = if flags & 1 != 0 { r.string()? } else { Str::default() };
                entries.push(PalEntry { flags, rgba, name });
            }
            Body::Palette(Palette { size: if size == last.wrapping_add(1) { None } else { Some(size) }, first, last: None, reserved, entries })
        }
        0x2020 => {
            let flags = r.u32()?;
            let text = if flags & 1 != 0 { r.string()? } else { Str::default() };
            let color = if flags & 2 != 0 { r.arr::<4>()? } else { [0; 4] };
            let extra = if flags & 4 != 0 { r.rest().to_vec() } else { vec![] };
            Body::UserData(UserData { flags, text, color, extra })
        }
        0x2022 => {
            let n = r.u32()?;
            let flags = r.u32()?;
            let reserved = r.u32()?;
            let name = r.string()?;
            let mut keys = Vec::new();
            for _ in 0..n {
                let mut k = SliceKey { frame: r.u32()?, x: r.i32()?, y: r.i32()?, w: r.u32()?, h: r.u32()?, center: (0, 0, 0, 0), pivot: (0, 0) };
                if flags & 1 != 0 {
                    k.center = (r.i32()?, r.i32()?, r.u32()?, r.u32()?);
                }
                if flags & 2 != 0 {
                    k.pivot = (r.i32()?, r.i32()?);
                }
                keys.push(k);
            }
            Body::Slice(Slice { nkeys: None, flags, reserved, name, keys })
        }
        0x2023 => {
            let id = r.u32()?;
            let flags = r.u32()?;
            let ntiles = r.u32()?;
            let tw = r.u16()?;
            let th = r.u16()?;
            let base_index = r.i16()?;
            let reserved = r.arr::<14>()?;
            let name = r.string()?;
            let (mut ext_file, mut ext_tileset) = (0, 0);
            if flags & 1 != 0 {
                ext_file = r.u32()?;
                ext_tileset = r.u32()?;
            }
            let mut pixels = vec![];
            let mut z = Zlib::Level(6);
            let mut compressed_len = None;
            if flags & 2 != 0 {
                let clen = r.u32()? as usize;
                let zs = r.take(clen.min(r.left()))?.to_vec();
                if zs.len() != clen {
                    compressed_len = Some(clen as u32);
                }
                pixels = inflate(&zs)?;
                z = Zlib::Verbatim(zs);
            }
            Body::Tileset(Tileset { id, flags, ntiles, tw, th, base_index, reserved, name, ext_file, ext_tileset, pixels, compressed_len, z })
        }
        _ => return Err(format!("unknown chunk type {:#x}", ty)),
    };
    Ok((body, r.o))
}
