//! Level-1 model of an Aseprite file: a header and a list of frames, each a list
//! of typed chunks ("the program").  Every field the format defines is explicit,
//! including the ones the library ignores, so encoding choices and corruptions can
//! be expressed exactly.  `encode` turns it into bytes and (optionally) a FieldMap.
//!
//! Written from the Aseprite file specification (docs/ase-file-specs.md), not from
//! the library under test.

use flate2::write::ZlibEncoder;
use flate2::Compression;
use std::io::Write;

#[derive(Clone, Copy, Debug, PartialEq, Eq, Hash)]
pub enum Role {
    Size,
    Count,
    Index,
    Offset,
    Enum,
    Flags,
    Value,
    Reserved,
    Magic,
    StrLen,
}

#[derive(Clone, Debug)]
pub struct Field {
    pub name: &'static str,
    /// frame index (u32::MAX for the file header)
    pub frame: u32,
    /// chunk index inside the frame (u32::MAX for frame header fields)
    pub chunk: u32,
    /// running index of this field name inside the chunk (entry number)
    pub sub: u32,
    pub offset: usize,
    pub width: u8,
    pub signed: bool,
    pub role: Role,
}

impl Field {
    pub fn label(&self) -> String {
        if self.frame == u32::MAX {
            format!("header.{}", self.name)
        } else if self.chunk == u32::MAX {
            format!("frame[{}].{}", self.frame, self.name)
        } else {
            format!("frame[{}].chunk[{}].{}#{}", self.frame, self.chunk, self.name, self.sub)
        }
    }
}

pub struct W {
    pub buf: Vec<u8>,
    pub record: bool,
    pub fields: Vec<Field>,
    frame: u32,
    chunk: u32,
    last_name: &'static str,
    sub: u32,
}

impl W {
    pub fn new(record: bool) -> W {
        W { buf: Vec::with_capacity(512), record, fields: Vec::new(), frame: u32::MAX, chunk: u32::MAX, last_name: "", sub: 0 }
    }
    fn rec(&mut self, name: &'static str, width: u8, signed: bool, role: Role) {
        if self.record {
            // sub index = number of earlier fields with the same name in the same chunk
            let sub = self
                .fields
                .iter()
                .rev()
                .take_while(|f| f.frame == self.frame && f.chunk == self.chunk)
                .filter(|f| f.name == name)
                .count() as u32;
            let _ = (self.last_name, self.sub);
            self.fields.push(Field { name, frame: self.frame, chunk: self.chunk, sub, offset: self.buf.len(), width, signed, role });
        }
    }
    pub fn u8(&mut self, name: &'static str, role: Role, v: u8) {
        self.rec(name, 1, false, role);
        self.buf.push(v);
    }
    pub fn u16(&mut self, name: &'static str, role: Role, v: u16) {
        self.rec(name, 2, false, role);
        self.buf.extend_from_slice(&v.to_le_bytes());
    }
    pub fn i16(&mut self, name: &'static str, role: Role, v: i16) {
        self.rec(name, 2, true, role);
        self.buf.extend_from_slice(&v.to_le_bytes());
    }
    pub fn u32(&mut self, name: &'static str, role: Role, v: u32) {
        self.rec(name, 4, false, role);
        self.buf.extend_from_slice(&v.to_le_bytes());
    }
    pub fn i32(&mut self, name: &'static str, role: Role, v: i32) {
        self.rec(name, 4, true, role);
        self.buf.extend_from_slice(&v.to_le_bytes());
    }
    pub fn bytes(&mut self, b: &[u8]) {
        self.buf.extend_from_slice(b);
    }
    /// reserved bytes: each one recorded as its own 1-byte field
    pub fn reserved(&mut self, name: &'static str, b: &[u8]) {
        for x in b {
            self.u8(name, Role::Reserved, *x);
        }
    }
    pub fn string(&mut self, name: &'static str, s: &Str) {
        let len = s.len_override.unwrap_or(s.bytes.len() as u16);
        self.u16(name, Role::StrLen, len);
        self.buf.extend_from_slice(&s.bytes);
    }
    fn patch_u32(&mut self, at: usize, v: u32) {
        self.buf[at..at + 4].copy_from_slice(&v.to_le_bytes());
    }
}

/// A length-prefixed string; bytes need not be valid UTF-8 (for fault injection).
#[derive(Clone, Debug, PartialEq, Eq, Hash, Default)]
pub struct Str {
    pub bytes: Vec<u8>,
    pub len_override: Option<u16>,
}
impl Str {
    pub fn new(s: &str) -> Str {
        Str { bytes: s.as_bytes().to_vec(), len_override: None }
    }
    pub fn as_string(&self) -> Option<String> {
        String::from_utf8(self.bytes.clone()).ok()
    }
}
impl From<&str> for Str {
    fn from(s: &str) -> Str {
        Str::new(s)
    }
}

#[derive(Clone, Debug)]
pub struct Header {
    pub file_size: Option<u32>,
    pub magic: u16,
    /// None = number of frames actually present
    pub frames: Option<u16>,
    pub width: u16,
    pub height: u16,
    pub depth: u16,
    pub flags: u32,
    pub speed: u16,
    pub ph1: u32,
    pub ph2: u32,
    pub transparent: u8,
    pub ignore: [u8; 3],
    pub ncolors: u16,
    pub pixel_w: u8,
    pub pixel_h: u8,
    pub grid_x: i16,
    pub grid_y: i16,
    pub grid_w: u16,
    pub grid_h: u16,
    pub reserved: [u8; 84],
}

impl Header {
    pub fn new(width: u16, height: u16, depth: u16) -> Header {
        Header {
            file_size: None,
            magic: 0xA5E0,
            frames: None,
            width,
            height,
            depth,
            flags: 1,
            speed: 100,
            ph1: 0,
            ph2: 0,
            transparent: 0,
            ignore: [0; 3],
            ncolors: 0,
            pixel_w: 1,
            pixel_h: 1,
            grid_x: 0,
            grid_y: 0,
            grid_w: 16,
            grid_h: 16,
            reserved: [0; 84],
        }
    }
}

#[derive(Clone, Copy, Debug, PartialEq, Eq, Hash)]
pub enum CountStyle {
    /// old = min(n, 0xFFFF), new = n
    Both,
    /// old = n, new = 0 (n must be < 0xFFFF)
    OldOnly,
    /// old = 0xFFFF, new = n (n must be > 0)
    NewOnly,
}

#[derive(Clone, Debug)]
pub struct Frame {
    pub size: Option<u32>,
    pub magic: u16,
    pub count_style: CountStyle,
    pub old_count: Option<u16>,
    pub new_count: Option<u32>,
    pub duration: u16,
    pub reserved: [u8; 2],
    pub chunks: Vec<Chunk>,
}

impl Frame {
    pub fn new(duration: u16) -> Frame {
        Frame { size: None, magic: 0xF1FA, count_style: CountStyle::Both, old_count: None, new_count: None, duration, reserved: [0; 2], chunks: Vec::new() }
    }
    pub fn push(&mut self, b: Body) -> &mut Chunk {
        self.chunks.push(Chunk::new(b));
        self.chunks.last_mut().unwrap()
    }
}

#[derive(Clone, Debug)]
pub struct Chunk {
    pub body: Body,
    pub trailing: Vec<u8>,
    pub size: Option<u32>,
    pub ty: Option<u16>,
}
impl Chunk {
    pub fn new(body: Body) -> Chunk {
        Chunk { body, trailing: Vec::new(), size: None, ty: None }
    }
}

#[derive(Clone, Debug)]
pub struct Layer {
    pub flags: u16,
    pub ty: u16,
    pub level: u16,
    pub default_w: u16,
    pub default_h: u16,
    pub blend: u16,
    pub opacity: u8,
    pub reserved: [u8; 3],
    pub name: Str,
    /// written iff ty == 2 (or forced)
    pub tileset: u32,
    pub force_tileset_field: Option<bool>,
}
impl Layer {
    pub fn image(name: &str) -> Layer {
        Layer { flags: 3, ty: 0, level: 0, default_w: 0, default_h: 0, blend: 0, opacity: 255, reserved: [0; 3], name: Str::new(name), tileset: 0, force_tileset_field: None }
    }
    pub fn group(name: &str) -> Layer {
        Layer { ty: 1, ..Layer::image(name) }
    }
    pub fn tilemap(name: &str, tileset: u32) -> Layer {
        Layer { ty: 2, tileset, ..Layer::image(name) }
    }
}

#[derive(Clone, Debug, PartialEq, Eq)]
pub enum Zlib {
    /// compress the payload with this level (0..=9)
    Level(u32),
    /// use these bytes verbatim as the stream (fault injection)
    Verbatim(Vec<u8>),
}

#[derive(Clone, Debug)]
pub enum CelBody {
    Raw { w: u16, h: u16, data: Vec<u8> },
    Linked { frame: u16 },
    Compressed { w: u16, h: u16, data: Vec<u8>, z: Zlib },
    Tilemap { w: u16, h: u16, bits: u16, mask_id: u32, mask_xflip: u32, mask_yflip: u32, mask_rot: u32, reserved: [u8; 10], tiles: Vec<u32>, tile_bytes_override: Option<Vec<u8>>, z: Zlib },
    /// unknown type: raw payload
    Other { data: Vec<u8> },
}

#[derive(Clone, Debug)]
pub struct Cel {
    pub layer: u16,
    pub x: i16,
    pub y: i16,
    pub opacity: u8,
    /// None = derived from the body
    pub ty: Option<u16>,
    pub z_index: i16,
    pub reserved: [u8; 5],
    pub body: CelBody,
}
impl Cel {
    pub fn new(layer: u16, x: i16, y: i16, opacity: u8, body: CelBody) -> Cel {
        Cel { layer, x, y, opacity, ty: None, z_index: 0, reserved: [0; 5], body }
    }
}

#[derive(Clone, Debug)]
pub struct CelExtra {
    pub flags: u32,
    pub x: u32,
    pub y: u32,
    pub w: u32,
    pub h: u32,
    pub reserved: [u8; 16],
}

#[derive(Clone, Debug)]
pub struct ColorProfile {
    pub ty: u16,
    pub flags: u16,
    pub gamma: u32,
    pub reserved: [u8; 8],
    /// ICC payload (length-prefixed) written when Some
    pub icc: Option<Vec<u8>>,
}

#[derive(Clone, Debug)]
pub struct ExtFile {
    pub id: u32,
    pub ty: u8,
    pub reserved: [u8; 7],
    pub name: Str,
}

#[derive(Clone, Debug)]
pub struct ExternalFiles {
    pub count: Option<u32>,
    pub reserved: [u8; 8],
    pub entries: Vec<ExtFile>,
}

#[derive(Clone, Debug)]
pub struct Mask {
    pub x: i16,
    pub y: i16,
    pub w: u16,
    pub h: u16,
    pub reserved: [u8; 8],
    pub name: Str,
    pub bitmap: Vec<u8>,
}

#[derive(Clone, Debug)]
pub struct Tag {
    pub from: u16,
    pub to: u16,
    pub dir: u8,
    pub repeat: u16,
    pub reserved: [u8; 6],
    pub color: [u8; 3],
    pub extra: u8,
    pub name: Str,
}
impl Tag {
    pub fn new(name: &str, from: u16, to: u16, dir: u8) -> Tag {
        // the deprecated per-tag colour is non-zero by default: nothing may depend on it
        Tag { from, to, dir, repeat: 0, reserved: [0; 6], color: [11, 22, 33], extra: 0, name: Str::new(name) }
    }
}

#[derive(Clone, Debug)]
pub struct Tags {
    pub count: Option<u16>,
    pub reserved: [u8; 8],
    pub tags: Vec<Tag>,
}

#[derive(Clone, Debug)]
pub struct PalEntry {
    pub flags: u16,
    pub rgba: [u8; 4],
    pub name: Str,
}

#[derive(Clone, Debug)]
pub struct Palette {
    /// "new palette size" field; None = last+1 (what Aseprite writes)
    pub size: Option<u32>,
    pub first: u32,
    /// None = first + entries.len() - 1
    pub last: Option<u32>,
    pub reserved: [u8; 8],
    pub entries: Vec<PalEntry>,
}

#[derive(Clone, Debug)]
pub struct OldPacket {
    pub skip: u8,
    /// count byte as stored (0 means 256)
    pub count: u8,
    pub colors: Vec<[u8; 3]>,
}

#[derive(Clone, Debug)]
pub struct OldPalette {
    pub npackets: Option<u16>,
    pub packets: Vec<OldPacket>,
}

#[derive(Clone, Debug, PartialEq, Eq, Hash)]
pub struct UserData {
    pub flags: u32,
    pub text: Str,
    pub color: [u8; 4],
    /// extra bytes (e.g. a properties map when flag bit 2 is set)
    pub extra: Vec<u8>,
}
impl UserData {
    pub fn text(s: &str) -> UserData {
        UserData { flags: 1, text: Str::new(s), color: [0; 4], extra: vec![] }
    }
    pub fn color(c: [u8; 4]) -> UserData {
        UserData { flags: 2, text: Str::default(), color: c, extra: vec![] }
    }
    pub fn both(s: &str, c: [u8; 4]) -> UserData {
        UserData { flags: 3, text: Str::new(s), color: c, extra: vec![] }
    }
    pub fn none() -> UserData {
        UserData { flags: 0, text: Str::default(), color: [0; 4], extra: vec![] }
    }
}

#[derive(Clone, Debug)]
pub struct SliceKey {
    pub frame: u32,
    pub x: i32,
    pub y: i32,
    pub w: u32,
    pub h: u32,
    pub center: (i32, i32, u32, u32),
    pub pivot: (i32, i32),
}

#[derive(Clone, Debug)]
pub struct Slice {
    pub nkeys: Option<u32>,
    pub flags: u32,
    pub reserved: u32,
    pub name: Str,
    pub keys: Vec<SliceKey>,
}

#[derive(Clone, Debug)]
pub struct Tileset {
    pub id: u32,
    pub flags: u32,
    pub ntiles: u32,
    pub tw: u16,
    pub th: u16,
    pub base_index: i16,
    pub reserved: [u8; 14],
    pub name: Str,
    pub ext_file: u32,
    pub ext_tileset: u32,
    /// pixel bytes of all tiles, tile after tile (uncompressed)
    pub pixels: Vec<u8>,
    pub compressed_len: Option<u32>,
    pub z: Zlib,
}

#[derive(Clone, Debug)]
pub enum Body {
    Layer(Layer),
    Cel(Cel),
    CelExtra(CelExtra),
    ColorProfile(ColorProfile),
    ExternalFiles(ExternalFiles),
    Mask(Mask),
    Path,
    Tags(Tags),
    Palette(Palette),
    UserData(UserData),
    Slice(Slice),
    Tileset(Tileset),
    OldPalette04(OldPalette),
    OldPalette11(OldPalette),
    Raw { ty: u16, data: Vec<u8> },
}

impl Body {
    pub fn type_code(&self) -> u16 {
        match self {
            Body::OldPalette04(_) => 0x0004,
            Body::OldPalette11(_) => 0x0011,
            Body::Layer(_) => 0x2004,
            Body::Cel(_) => 0x2005,
            Body::CelExtra(_) => 0x2006,
            Body::ColorProfile(_) => 0x2007,
            Body::ExternalFiles(_) => 0x2008,
            Body::Mask(_) => 0x2016,
            Body::Path => 0x2017,
            Body::Tags(_) => 0x2018,
            Body::Palette(_) => 0x2019,
            Body::UserData(_) => 0x2020,
            Body::Slice(_) => 0x2022,
            Body::Tileset(_) => 0x2023,
            Body::Raw { ty, .. } => *ty,
        }
    }
    pub fn kind_name(&self) -> &'static str {
        match self {
            Body::OldPalette04(_) => "oldpal04",
            Body::OldPalette11(_) => "oldpal11",
            Body::Layer(_) => "layer",
            Body::Cel(_) => "cel",
            Body::CelExtra(_) => "celextra",
            Body::ColorProfile(_) => "profile",
            Body::ExternalFiles(_) => "extfiles",
            Body::Mask(_) => "mask",
            Body::Path => "path",
            Body::Tags(_) => "tags",
            Body::Palette(_) => "palette",
            Body::UserData(_) => "userdata",
            Body::Slice(_) => "slice",
            Body::Tileset(_) => "tileset",
            Body::Raw { .. } => "raw",
        }
    }
    pub fn is_ignorable(&self) -> bool {
        match self {
            Body::CelExtra(_) | Body::Mask(_) | Body::Path => true,
            Body::ColorProfile(p) => p.ty <= 1 && p.flags & 1 == 0,
            _ => false,
        }
    }
}

#[derive(Clone, Debug)]
pub struct File {
    pub header: Header,
    pub frames: Vec<Frame>,
    /// bytes after the last frame
    pub tail: Vec<u8>,
}

pub fn zlib(data: &[u8], level: u32) -> Vec<u8> {
    let mut e = ZlibEncoder::new(Vec::with_capacity(data.len() / 2 + 16), Compression::new(level));
    e.write_all(data).unwrap();
    e.finish().unwrap()
}

fn zbytes(data: &[u8], z: &Zlib) -> Vec<u8> {
    match z {
        Zlib::Level(l) => zlib(data, *l),
        Zlib::Verbatim(v) => v.clone(),
    }
}

pub struct Encoded {
    pub bytes: Vec<u8>,
    pub fields: Vec<Field>,
    /// offset just past the last frame (before `tail`)
    pub end_of_last_frame: usize,
    /// (frame, chunk) -> (start offset, end offset) of each chunk
    pub chunk_spans: Vec<(u32, u32, usize, usize)>,
}

impl File {
    pub fn new(width: u16, height: u16, depth: u16) -> File {
        File { header: Header::new(width, height, depth), frames: Vec::new(), tail: Vec::new() }
    }

    pub fn encode(&self) -> Vec<u8> {
        self.encode_full(false).bytes
    }

    pub fn encode_full(&self, record: bool) -> Encoded {
        let mut w = W::new(record);
        let h = &self.header;
        w.u32("file_size", Role::Size, 0);
        w.u16("magic", Role::Magic, h.magic);
        w.u16("frames", Role::Count, h.frames.unwrap_or(self.frames.len() as u16));
        w.u16("width", Role::Size, h.width);
        w.u16("height", Role::Size, h.height);
        w.u16("depth", Role::Enum, h.depth);
        w.u32("flags", Role::Flags, h.flags);
        w.u16("speed", Role::Value, h.speed);
        w.u32("ph1", Role::Reserved, h.ph1);
        w.u32("ph2", Role::Reserved, h.ph2);
        w.u8("transparent", Role::Index, h.transparent);
        w.reserved("ignore", &h.ignore);
        w.u16("ncolors", Role::Count, h.ncolors);
        w.u8("pixel_w", Role::Value, h.pixel_w);
        w.u8("pixel_h", Role::Value, h.pixel_h);
        w.i16("grid_x", Role::Offset, h.grid_x);
        w.i16("grid_y", Role::Offset, h.grid_y);
        w.u16("grid_w", Role::Size, h.grid_w);
        w.u16("grid_h", Role::Size, h.grid_h);
        w.reserved("reserved", &h.reserved);
        debug_assert_eq!(w.buf.len(), 128);
        let mut spans = Vec::new();

        for (fi, f) in self.frames.iter().enumerate() {
            w.frame = fi as u32;
            w.chunk = u32::MAX;
            let fstart = w.buf.len();
            w.u32("frame_size", Role::Size, 0);
            w.u16("frame_magic", Role::Magic, f.magic);
            let n = f.chunks.len() as u32;
            let (old, new) = match f.count_style {
                CountStyle::Both => (n.min(0xFFFF) as u16, n),
                CountStyle::OldOnly => (n.min(0xFFFF) as u16, 0),
                CountStyle::NewOnly => (0xFFFF, n),
            };
            w.u16("old_chunks", Role::Count, f.old_count.unwrap_or(old));
            w.u16("duration", Role::Value, f.duration);
            w.reserved("frame_reserved", &f.reserved);
            w.u32("new_chunks", Role::Count, f.new_count.unwrap_or(new));
            for (ci, c) in f.chunks.iter().enumerate() {
                w.chunk = ci as u32;
                let cstart = w.buf.len();
                w.u32("chunk_size", Role::Size, 0);
                w.u16("chunk_type", Role::Enum, c.ty.unwrap_or(c.body.type_code()));
                encode_body(&mut w, &c.body);
                w.bytes(&c.trailing);
                let size = (w.buf.len() - cstart) as u32;
                w.patch_u32(cstart, c.size.unwrap_or(size));
                spans.push((fi as u32, ci as u32, cstart, w.buf.len()));
            }
            let fsize = (w.buf.len() - fstart) as u32;
            w.patch_u32(fstart, f.size.unwrap_or(fsize));
        }
        let end = w.buf.len();
        w.bytes(&self.tail);
        let total = w.buf.len() as u32;
        w.patch_u32(0, h.file_size.unwrap_or(total));
        Encoded { bytes: w.buf, fields: w.fields, end_of_last_frame: end, chunk_spans: spans }
    }
}

fn encode_body(w: &mut W, b: &Body) {
    match b {
        Body::Layer(l) => {
            w.u16("layer_flags", Role::Flags, l.flags);
            w.u16("layer_type", Role::Enum, l.ty);
            w.u16("layer_level", Role::Index, l.level);
            w.u16("layer_default_w", Role::Size, l.default_w);
            w.u16("layer_default_h", Role::Size, l.default_h);
            w.u16("layer_blend", Role::Enum, l.blend);
            w.u8("layer_opacity", Role::Value, l.opacity);
            w.reserved("layer_reserved", &l.reserved);
            w.string("layer_name", &l.name);
            if l.force_tileset_field.unwrap_or(l.ty == 2) {
                w.u32("layer_tileset", Role::Index, l.tileset);
            }
        }
        Body::Cel(c) => {
            w.u16("cel_layer", Role::Index, c.layer);
            w.i16("cel_x", Role::Offset, c.x);
            w.i16("cel_y", Role::Offset, c.y);
            w.u8("cel_opacity", Role::Value, c.opacity);
            let ty = c.ty.unwrap_or(match &c.body {
                CelBody::Raw { .. } => 0,
                CelBody::Linked { .. } => 1,
                CelBody::Compressed { .. } => 2,
                CelBody::Tilemap { .. } => 3,
                CelBody::Other { .. } => 0xFFFF,
            });
            w.u16("cel_type", Role::Enum, ty);
            w.i16("cel_zindex", Role::Reserved, c.z_index);
            w.reserved("cel_reserved", &c.reserved);
            match &c.body {
                CelBody::Raw { w: cw, h: ch, data } => {
                    w.u16("cel_w", Role::Size, *cw);
                    w.u16("cel_h", Role::Size, *ch);
                    w.bytes(data);
                }
                CelBody::Linked { frame } => {
                    w.u16("cel_link", Role::Index, *frame);
                }
                CelBody::Compressed { w: cw, h: ch, data, z } => {
                    w.u16("cel_w", Role::Size, *cw);
                    w.u16("cel_h", Role::Size, *ch);
                    let zb = zbytes(data, z);
                    w.bytes(&zb);
                }
                CelBody::Tilemap { w: tw, h: th, bits, mask_id, mask_xflip, mask_yflip, mask_rot, reserved, tiles, tile_bytes_override, z } => {
                    w.u16("tm_w", Role::Size, *tw);
                    w.u16("tm_h", Role::Size, *th);
                    w.u16("tm_bits", Role::Enum, *bits);
                    w.u32("tm_mask_id", Role::Flags, *mask_id);
                    w.u32("tm_mask_x", Role::Flags, *mask_xflip);
                    w.u32("tm_mask_y", Role::Flags, *mask_yflip);
                    w.u32("tm_mask_r", Role::Flags, *mask_rot);
                    w.reserved("tm_reserved", reserved);
                    let raw: Vec<u8> = match tile_bytes_override {
                        Some(b) => b.clone(),
                        None => tiles.iter().flat_map(|t| t.to_le_bytes()).collect(),
                    };
                    let zb = zbytes(&raw, z);
                    w.bytes(&zb);
                }
                CelBody::Other { data } => w.bytes(data),
            }
        }
        Body::CelExtra(e) => {
            w.u32("cx_flags", Role::Flags, e.flags);
            w.u32("cx_x", Role::Value, e.x);
            w.u32("cx_y", Role::Value, e.y);
            w.u32("cx_w", Role::Value, e.w);
            w.u32("cx_h", Role::Value, e.h);
            w.reserved("cx_reserved", &e.reserved);
        }
        Body::ColorProfile(p) => {
            w.u16("cp_type", Role::Enum, p.ty);
            w.u16("cp_flags", Role::Flags, p.flags);
            w.u32("cp_gamma", Role::Value, p.gamma);
            w.reserved("cp_reserved", &p.reserved);
            if let Some(icc) = &p.icc {
                w.u32("cp_icc_len", Role::Size, icc.len() as u32);
                w.bytes(icc);
            }
        }
        Body::ExternalFiles(x) => {
            w.u32("xf_count", Role::Count, x.count.unwrap_or(x.entries.len() as u32));
            w.reserved("xf_reserved", &x.reserved);
            for e in &x.entries {
                w.u32("xf_id", Role::Value, e.id);
                w.u8("xf_type", Role::Reserved, e.ty);
                w.reserved("xf_entry_reserved", &e.reserved);
                w.string("xf_name", &e.name);
            }
        }
        Body::Mask(m) => {
            w.i16("mask_x", Role::Value, m.x);
            w.i16("mask_y", Role::Value, m.y);
            w.u16("mask_w", Role::Size, m.w);
            w.u16("mask_h", Role::Size, m.h);
            w.reserved("mask_reserved", &m.reserved);
            w.string("mask_name", &m.name);
            w.bytes(&m.bitmap);
        }
        Body::Path => {}
        Body::Tags(t) => {
            w.u16("tags_count", Role::Count, t.count.unwrap_or(t.tags.len() as u16));
            w.reserved("tags_reserved", &t.reserved);
            for g in &t.tags {
                w.u16("tag_from", Role::Index, g.from);
                w.u16("tag_to", Role::Index, g.to);
                w.u8("tag_dir", Role::Enum, g.dir);
                w.u16("tag_repeat", Role::Value, g.repeat);
                w.reserved("tag_reserved", &g.reserved);
                w.reserved("tag_color", &g.color);
                w.u8("tag_extra", Role::Reserved, g.extra);
                w.string("tag_name", &g.name);
            }
        }
        Body::Palette(p) => {
            let last = p.last.unwrap_or((p.first as u64 + p.entries.len() as u64).saturating_sub(1) as u32);
            w.u32("pal_size", Role::Count, p.size.unwrap_or(last.wrapping_add(1)));
            w.u32("pal_first", Role::Index, p.first);
            w.u32("pal_last", Role::Index, last);
            w.reserved("pal_reserved", &p.reserved);
            for e in &p.entries {
                w.u16("pal_entry_flags", Role::Flags, e.flags);
                w.u8("pal_r", Role::Value, e.rgba[0]);
                w.u8("pal_g", Role::Value, e.rgba[1]);
                w.u8("pal_b", Role::Value, e.rgba[2]);
                w.u8("pal_a", Role::Value, e.rgba[3]);
                if e.flags & 1 != 0 {
                    w.string("pal_name", &e.name);
                }
            }
        }
        Body::OldPalette04(p) | Body::OldPalette11(p) => {
            w.u16("op_packets", Role::Count, p.npackets.unwrap_or(p.packets.len() as u16));
            for k in &p.packets {
                w.u8("op_skip", Role::Offset, k.skip);
                w.u8("op_count", Role::Count, k.count);
                for c in &k.colors {
                    w.u8("op_r", Role::Value, c[0]);
                    w.u8("op_g", Role::Value, c[1]);
                    w.u8("op_b", Role::Value, c[2]);
                }
            }
        }
        Body::UserData(u) => {
            w.u32("ud_flags", Role::Flags, u.flags);
            if u.flags & 1 != 0 {
                w.string("ud_text", &u.text);
            }
            if u.flags & 2 != 0 {
                w.u8("ud_r", Role::Value, u.color[0]);
                w.u8("ud_g", Role::Value, u.color[1]);
                w.u8("ud_b", Role::Value, u.color[2]);
                w.u8("ud_a", Role::Value, u.color[3]);
            }
            w.bytes(&u.extra);
        }
        Body::Slice(s) => {
            w.u32("slice_nkeys", Role::Count, s.nkeys.unwrap_or(s.keys.len() as u32));
            w.u32("slice_flags", Role::Flags, s.flags);
            w.u32("slice_reserved", Role::Reserved, s.reserved);
            w.string("slice_name", &s.name);
            for k in &s.keys {
                w.u32("key_frame", Role::Index, k.frame);
                w.i32("key_x", Role::Offset, k.x);
                w.i32("key_y", Role::Offset, k.y);
                w.u32("key_w", Role::Size, k.w);
                w.u32("key_h", Role::Size, k.h);
                if s.flags & 1 != 0 {
                    w.i32("key_cx", Role::Offset, k.center.0);
                    w.i32("key_cy", Role::Offset, k.center.1);
                    w.u32("key_cw", Role::Size, k.center.2);
                    w.u32("key_ch", Role::Size, k.center.3);
                }
                if s.flags & 2 != 0 {
                    w.i32("key_px", Role::Offset, k.pivot.0);
                    w.i32("key_py", Role::Offset, k.pivot.1);
                }
            }
        }
        Body::Tileset(t) => {
            w.u32("ts_id", Role::Value, t.id);
            w.u32("ts_flags", Role::Flags, t.flags);
            w.u32("ts_ntiles", Role::Count, t.ntiles);
            w.u16("ts_tw", Role::Size, t.tw);
            w.u16("ts_th", Role::Size, t.th);
            w.i16("ts_base", Role::Value, t.base_index);
            w.reserved("ts_reserved", &t.reserved);
            w.string("ts_name", &t.name);
            if t.flags & 1 != 0 {
                w.u32("ts_ext_file", Role::Value, t.ext_file);
                w.u32("ts_ext_tileset", Role::Value, t.ext_tileset);
            }
            if t.flags & 2 != 0 {
                let zb = zbytes(&t.pixels, &t.z);
                w.u32("ts_clen", Role::Size, t.compressed_len.unwrap_or(zb.len() as u32));
                w.bytes(&zb);
            }
        }
        Body::Raw { data, .. } => w.bytes(data),
    }
}

/// Walks a byte string as header + frames + chunks using only the size fields and
/// checks they add up.  Machinery self-test for generated well-formed files.
pub fn walk_sizes(bytes: &[u8]) -> Result<usize, String> {
    if bytes.len() < 128 {
        return Err("short header".into());
    }
    let rd32 = |o: usize| u32::from_le_bytes([bytes[o], bytes[o + 1], bytes[o + 2], bytes[o + 3]]);
    let rd16 = |o: usize| u16::from_le_bytes([bytes[o], bytes[o + 1]]);
    let nframes = rd16(6) as usize;
    let mut o = 128;
    for f in 0..nframes {
        if o + 16 > bytes.len() {
            return Err(format!("frame {} header beyond end", f));
        }
        let fsize = rd32(o) as usize;
        if rd16(o + 4) != 0xF1FA {
            return Err(format!("frame {} magic", f));
        }
        let old = rd16(o + 6) as u32;
        let new = rd32(o + 12);
        let n = if new == 0 { old } else { new };
        let mut c = o + 16;
        for k in 0..n {
            if c + 6 > bytes.len() {
                return Err(format!("frame {} chunk {} header beyond end", f, k));
            }
            let cs = rd32(c) as usize;
            if cs < 6 {
                return Err(format!("frame {} chunk {} size {}", f, k, cs));
            }
            c += cs;
        }
        if c != o + fsize {
            return Err(format!("frame {} chunks end at {} but frame size says {}", f, c, o + fsize));
        }
        o += fsize;
    }
    if o > bytes.len() {
        return Err("frames beyond end".into());
    }
    Ok(o)
}
