//! Exploration bookkeeping: counters, violation sink with replay files, known findings,
//! evidence writer, and the small combinatorial enumerators (product, Hamming ball,
//! sequences, permutations).

use serde_json::{json, Value};
use std::collections::{BTreeMap, HashSet};
use std::path::{Path, PathBuf};
use std::sync::atomic::{AtomicU64, Ordering};
use std::sync::Mutex;
use std::time::Instant;

#[derive(Clone, Copy, Debug, PartialEq, Eq)]
pub enum Tier {
    Quick,
    Thorough,
}
impl Tier {
    pub fn name(&self) -> &'static str {
        match self {
            Tier::Quick => "quick",
            Tier::Thorough => "thorough",
        }
    }
}

#[derive(Clone, Debug)]
pub struct Violation {
    pub family: String,
    pub case: String,
    pub sig: String,
    pub detail: String,
    pub bytes: Option<Vec<u8>>,
    pub extra: Value,
}

#[derive(Clone, Debug)]
pub struct KnownFinding {
    pub property: String,
    pub family: String,
    pub sig: String,
    pub what: String,
}

pub struct FamilyStat {
    pub cases: u64,
    pub description: String,
    pub exhaustive: bool,
}

pub struct Ctx {
    pub prop: String,
    pub tier: Tier,
    pub seed: i64,
    pub level: &'static str,
    pub root: PathBuf,
    pub only: Option<(String, String)>,
    pub start: Instant,
    pub evaluations: AtomicU64,
    pub transitions: AtomicU64,
    pub traces: AtomicU64,
    outcomes: Mutex<HashSet<u64>>,
    violations: Mutex<Vec<Violation>>,
    pub violation_count: AtomicU64,
    known_hits: Mutex<BTreeMap<String, u64>>,
    sig_counts: Mutex<BTreeMap<String, u64>>,
    rule: Mutex<Option<String>>,
    pub known: Vec<KnownFinding>,
    families: Mutex<Vec<(String, FamilyStat)>>,
    samples: Mutex<Vec<Value>>,
    notes: Mutex<Vec<String>>,
    assumptions: Mutex<Vec<String>>,
    extra: Mutex<BTreeMap<String, Value>>,
    pub caps_hit: Mutex<Vec<String>>,
}

pub fn hash64<T: std::hash::Hash>(t: &T) -> u64 {
    use std::hash::Hasher;
    // deterministic (fixed keys): no per-process randomness reaches a count
    #[allow(deprecated)]
    let mut h = std::hash::SipHasher::new_with_keys(0x0123_4567_89ab_cdef, 0xfedc_ba98_7654_3210);
    t.hash(&mut h);
    h.finish()
}

impl Ctx {
    pub fn new(prop: &str, tier: Tier, level: &'static str, root: &Path) -> Ctx {
        let seed = std::env::var("VERIF_SEED").ok().and_then(|s| s.parse().ok()).unwrap_or(0);
        let known = load_known(&root.join("known_findings.txt"));
        Ctx {
            prop: prop.to_string(),
            tier,
            seed,
            level,
            root: root.to_path_buf(),
            only: None,
            start: Instant::now(),
            evaluations: AtomicU64::new(0),
            transitions: AtomicU64::new(0),
            traces: AtomicU64::new(0),
            outcomes: Mutex::new(HashSet::new()),
            violations: Mutex::new(Vec::new()),
            violation_count: AtomicU64::new(0),
            known_hits: Mutex::new(BTreeMap::new()),
            sig_counts: Mutex::new(BTreeMap::new()),
            rule: Mutex::new(None),
            known,
            families: Mutex::new(Vec::new()),
            samples: Mutex::new(Vec::new()),
            notes: Mutex::new(Vec::new()),
            assumptions: Mutex::new(Vec::new()),
            extra: Mutex::new(BTreeMap::new()),
            caps_hit: Mutex::new(Vec::new()),
        }
    }

    /// In replay mode only the named case of the named family is evaluated.
    pub fn wants(&self, family: &str, case: &dyn Fn() -> String) -> bool {
        match &self.only {
            None => true,
            Some((f, c)) => f == family && *c == case(),
        }
    }
    pub fn wants_family(&self, family: &str) -> bool {
        // development aid: VERIF_ONLY_FAMILY=<prefix> restricts a run to matching families
        // (the evidence then lists only those; never set by the registered commands)
        if let Ok(p) = std::env::var("VERIF_ONLY_FAMILY") {
            if !family.starts_with(&p) {
                return false;
            }
        }
        match &self.only {
            None => true,
            Some((f, _)) => f == family,
        }
    }

    pub fn eval(&self, transitions: u64) {
        self.evaluations.fetch_add(1, Ordering::Relaxed);
        self.transitions.fetch_add(transitions, Ordering::Relaxed);
        self.traces.fetch_add(1, Ordering::Relaxed);
    }
    pub fn eval_n(&self, n: u64, transitions: u64) {
        self.evaluations.fetch_add(n, Ordering::Relaxed);
        self.transitions.fetch_add(transitions, Ordering::Relaxed);
        self.traces.fetch_add(n, Ordering::Relaxed);
    }
    pub fn outcome(&self, h: u64) {
        let mut o = self.outcomes.lock().unwrap();
        if o.len() < 4_000_000 {
            o.insert(h);
        }
    }
    pub fn outcomes_bulk(&self, hs: &HashSet<u64>) {
        let mut o = self.outcomes.lock().unwrap();
        for h in hs {
            if o.len() >= 4_000_000 {
                break;
            }
            o.insert(*h);
        }
    }
    pub fn family(&self, name: &str, cases: u64, description: &str, exhaustive: bool) {
        self.families.lock().unwrap().push((name.to_string(), FamilyStat { cases, description: description.to_string(), exhaustive }));
    }
    pub fn sample(&self, v: Value) {
        let mut s = self.samples.lock().unwrap();
        if s.len() < 12 {
            s.push(v);
        }
    }
    pub fn sample_count(&self) -> usize {
        self.samples.lock().unwrap().len()
    }
    pub fn note(&self, s: impl Into<String>) {
        self.notes.lock().unwrap().push(s.into());
    }
    pub fn assume(&self, s: impl Into<String>) {
        self.assumptions.lock().unwrap().push(s.into());
    }
    pub fn set_extra(&self, k: &str, v: Value) {
        self.extra.lock().unwrap().insert(k.to_string(), v);
    }
    pub fn set_rule(&self, s: impl Into<String>) {
        *self.rule.lock().unwrap() = Some(s.into());
    }
    pub fn cap(&self, s: impl Into<String>) {
        self.caps_hit.lock().unwrap().push(s.into());
    }

    pub fn violation(&self, v: Violation) {
        // known finding?
        for k in &self.known {
            if k.property == self.prop && k.family == v.family && k.sig == v.sig {
                *self.known_hits.lock().unwrap().entry(format!("{} family={} sig={}", k.what, k.family, k.sig)).or_insert(0) += 1;
                return;
            }
        }
        self.violation_count.fetch_add(1, Ordering::Relaxed);
        {
            let mut sc = self.sig_counts.lock().unwrap();
            if sc.len() < 500 || sc.contains_key(&v.sig) {
                *sc.entry(v.sig.clone()).or_insert(0) += 1;
            }
        }
        let mut vs = self.violations.lock().unwrap();
        // keep one representative per signature first (at most 60), then per (family, sig) up to 80
        let new_sig = !vs.iter().any(|x| x.sig == v.sig);
        let new_pair = !vs.iter().any(|x| x.family == v.family && x.sig == v.sig);
        if (new_sig && vs.len() < 80) || (new_pair && vs.len() < 40) {
            vs.push(v);
        }
    }

    /// Writes the evidence file, prints VIOLATION / KNOWN-FINDING lines, returns the exit code.
    pub fn finish(&self) -> i32 {
        let wall = self.start.elapsed().as_secs_f64();
        let vs = self.violations.lock().unwrap();
        let nviol = self.violation_count.load(Ordering::Relaxed);
        let replay_dir = self.root.join("replays").join(&self.prop);
        let mut lines = Vec::new();
        if !vs.is_empty() {
            let _ = std::fs::create_dir_all(&replay_dir);
        }
        for (i, v) in vs.iter().enumerate() {
            let stem = format!("{}-{}-{:03}", self.tier.name(), sanitize(&v.family), i);
            let jpath = replay_dir.join(format!("{}.json", stem));
            let mut j = json!({
                "property": self.prop,
                "family": v.family,
                "case": v.case,
                "signature": v.sig,
                "detail": v.detail,
                "tier": self.tier.name(),
                "extra": v.extra,
            });
            if let Some(b) = &v.bytes {
                let apath = replay_dir.join(format!("{}.ase", stem));
                let _ = std::fs::write(&apath, b);
                j["input_file"] = json!(apath.to_string_lossy());
                j["input_len"] = json!(b.len());
            }
            let _ = std::fs::write(&jpath, serde_json::to_string_pretty(&j).unwrap());
            lines.push(format!("VIOLATION property={} replay={}", self.prop, jpath.display()));
            eprintln!("  [{}] family={} case={} sig={}\n      {}", self.prop, v.family, v.case, v.sig, truncate(&v.detail, 600));
        }
        let hits = self.known_hits.lock().unwrap();
        for (k, n) in hits.iter() {
            println!("KNOWN-FINDING: property={} {} ({} cases)", self.prop, k, n);
        }
        for l in &lines {
            println!("{}", l);
        }
        if self.only.is_some() {
            // replay mode: no evidence rewrite
            return if nviol > 0 { 1 } else { 0 };
        }
        let fams = self.families.lock().unwrap();
        let exhaustive = !fams.is_empty() && fams.iter().all(|(_, f)| f.exhaustive) && self.caps_hit.lock().unwrap().is_empty();
        let fam_json: Vec<Value> = fams.iter().map(|(n, f)| json!({"family": n, "cases": f.cases, "what": f.description, "exhaustive": f.exhaustive})).collect();
        let rule = format!(
            "Bounded-exhaustive enumeration (no sampling): every case of each family listed under 'families' is generated and run against the real library; \
             evaluations = cases executed; distinct_nontrivial = number of distinct outcome digests (64-bit SipHash of the observed result of a case) over all executed cases, \
             a case being non-trivial when it produced an observation at all (capped at 4,000,000 stored digests)."
        );
        let rule = self.rule.lock().unwrap().clone().unwrap_or(rule);
        let sc = self.sig_counts.lock().unwrap();
        if !sc.is_empty() {
            eprintln!("  violation signatures ({}):", sc.len());
            for (k, n) in sc.iter() {
                eprintln!("    {:>9}  {}", n, k);
            }
        }
        let evals = self.evaluations.load(Ordering::Relaxed);
        let distinct = self.outcomes.lock().unwrap().len() as u64;
        let mut cov = json!({
            "evaluations": evals,
            "distinct_nontrivial": distinct,
            "rule": rule,
            "samples": *self.samples.lock().unwrap(),
            "states": evals,
            "transitions": self.transitions.load(Ordering::Relaxed),
            "traces_validated_against_impl": self.traces.load(Ordering::Relaxed),
            "exhaustive": exhaustive,
            "families": fam_json,
            "caps_hit": *self.caps_hit.lock().unwrap(),
            "violation_signatures": sc.iter().map(|(k, n)| json!({"signature": k, "cases": n})).collect::<Vec<_>>(),
            "notes": *self.notes.lock().unwrap(),
            "known_findings_hit": hits.iter().map(|(k, n)| json!({"finding": k, "cases": n})).collect::<Vec<_>>(),
            "explanation": "states = model instances / inputs / histories explored (each one encoded to bytes and run against the real library); transitions = public API calls or reader events executed on them; traces_validated_against_impl = instances whose predicted observation was compared with the implementation's.",
        });
        for (k, v) in self.extra.lock().unwrap().iter() {
            cov[k] = v.clone();
        }
        let ev = json!({
            "property_id": self.prop,
            "tier": self.tier.name(),
            "seed": self.seed,
            "level": self.level,
            "coverage": cov,
            "assumptions": *self.assumptions.lock().unwrap(),
            "wall_s": wall,
            "violations": nviol,
        });
        let edir = self.root.join("evidence");
        let _ = std::fs::create_dir_all(&edir);
        let path = edir.join(format!("{}.json", self.prop));
        std::fs::write(&path, serde_json::to_string_pretty(&ev).unwrap()).expect("write evidence");
        eprintln!(
            "[{} {}] cases={} transitions={} distinct_outcomes={} violations={} known={} wall={:.1}s",
            self.prop,
            self.tier.name(),
            evals,
            self.transitions.load(Ordering::Relaxed),
            distinct,
            nviol,
            hits.values().sum::<u64>(),
            wall
        );
        if nviol > 0 {
            1
        } else {
            0
        }
    }
}

fn truncate(s: &str, n: usize) -> String {
    if s.len() <= n {
        s.to_string()
    } else {
        let mut e = n;
        while !s.is_char_boundary(e) {
            e -= 1;
        }
        format!("{}…", &s[..e])
    }
}

fn sanitize(s: &str) -> String {
    s.chars().map(|c| if c.is_ascii_alphanumeric() || c == '-' || c == '_' { c } else { '_' }).collect()
}

/// `known: property=C05 family=<name> sig=<signature…> :: <what fails>`
/// `fixed: property=C04 <commit> <what failed>`   (suppresses nothing)
pub fn load_known(path: &Path) -> Vec<KnownFinding> {
    let mut out = Vec::new();
    let Ok(text) = std::fs::read_to_string(path) else { return out };
    for line in text.lines() {
        let line = line.trim();
        let Some(rest) = line.strip_prefix("known:") else { continue };
        let (spec, what) = rest.split_once("::").unwrap_or((rest, ""));
        let spec = spec.trim();
        let Some(p) = spec.strip_prefix("property=") else { continue };
        let Some((prop, rest)) = p.split_once(" family=") else { continue };
        let Some((family, sig)) = rest.split_once(" sig=") else { continue };
        out.push(KnownFinding { property: prop.trim().to_string(), family: family.trim().to_string(), sig: sig.trim().to_string(), what: what.trim().to_string() });
    }
    out
}

// ---------------------------------------------------------------------------------
// enumerators

/// All vectors over `dims` (dims[i] = alphabet size of coordinate i) that differ from the
/// all-zero default in at most `k` coordinates.  Calls `f` with each vector.
pub fn ball(dims: &[usize], k: usize, f: &mut dyn FnMut(&[usize])) {
    let mut v = vec![0usize; dims.len()];
    fn rec(dims: &[usize], k: usize, start: usize, v: &mut Vec<usize>, f: &mut dyn FnMut(&[usize])) {
        f(v);
        if k == 0 {
            return;
        }
        for i in start..dims.len() {
            for a in 1..dims[i] {
                v[i] = a;
                rec(dims, k - 1, i + 1, v, f);
            }
            v[i] = 0;
        }
    }
    rec(dims, k, 0, &mut v, f);
}

pub fn ball_vec(dims: &[usize], k: usize) -> Vec<Vec<usize>> {
    let mut out = Vec::new();
    ball(dims, k, &mut |v| out.push(v.to_vec()));
    out
}

pub fn ball_size(dims: &[usize], k: usize) -> u64 {
    // sum over subsets of size <= k of product (dims-1): elementary symmetric polynomials
    let mut e = vec![0u128; k + 1];
    e[0] = 1;
    for d in dims {
        let x = (*d as u128).saturating_sub(1);
        for j in (1..=k).rev() {
            e[j] += e[j - 1] * x;
        }
    }
    e.iter().sum::<u128>() as u64
}

/// Full cartesian product.
pub fn product(dims: &[usize], f: &mut dyn FnMut(&[usize])) {
    if dims.iter().any(|d| *d == 0) {
        return;
    }
    let mut v = vec![0usize; dims.len()];
    loop {
        f(&v);
        let mut i = dims.len();
        loop {
            if i == 0 {
                return;
            }
            i -= 1;
            v[i] += 1;
            if v[i] < dims[i] {
                break;
            }
            v[i] = 0;
        }
    }
}

pub fn product_vec(dims: &[usize]) -> Vec<Vec<usize>> {
    let mut out = Vec::new();
    product(dims, &mut |v| out.push(v.to_vec()));
    out
}

/// All permutations of 0..n (Heap's algorithm, deterministic order).
pub fn permutations(n: usize) -> Vec<Vec<usize>> {
    let mut out = Vec::new();
    let mut a: Vec<usize> = (0..n).collect();
    fn heap(k: usize, a: &mut Vec<usize>, out: &mut Vec<Vec<usize>>) {
        if k <= 1 {
            out.push(a.clone());
            return;
        }
        for i in 0..k {
            heap(k - 1, a, out);
            if k % 2 == 0 {
                a.swap(i, k - 1);
            } else {
                a.swap(0, k - 1);
            }
        }
    }
    heap(n, &mut a, &mut out);
    out.sort();
    out
}

// alphabets -----------------------------------------------------------------------

pub const A6: [u8; 6] = [0, 1, 127, 128, 254, 255];
pub const A12: [u8; 12] = [0, 1, 2, 63, 64, 127, 128, 129, 191, 253, 254, 255];

pub fn b16() -> Vec<u16> {
    let mut v: Vec<u16> = vec![0, 1, 2, 3, 7, 8, 255, 256, 257, 32766, 32767, 32768, 32769, 65534, 65535];
    for k in 0..16 {
        v.push(1 << k);
        v.push(!(1u16 << k));
    }
    v.sort();
    v.dedup();
    v
}

pub fn b32() -> Vec<u32> {
    let mut v: Vec<u32> = vec![0, 1, 2, 3, 7, 8, 255, 256, 257, 65535, 65536, 65537, 0x7FFF_FFFE, 0x7FFF_FFFF, 0x8000_0000, 0x8000_0001, 0xFFFF_FFFE, 0xFFFF_FFFF];
    for k in 0..32 {
        v.push(1 << k);
        v.push(!(1u32 << k));
    }
    v.sort();
    v.dedup();
    v
}

pub fn i16s() -> Vec<i16> {
    vec![-32768, -32767, -257, -256, -2, -1, 0, 1, 2, 255, 256, 32766, 32767]
}

pub fn names() -> Vec<String> {
    vec![
        "".into(),
        "a".into(),
        "x".repeat(255),
        "y".repeat(256),
        "z".repeat(65535),
        "é ñ ü".into(),
        "\u{800}\u{FFFF}漢字".into(),
        "\u{10000}\u{10FFFF}🎨".into(),
        "nul\0inside".into(),
        "Layer 1".into(),
    ]
}
