//! Canonical observation of a loaded sprite: everything the public API reports.
//! The harness fills it from the library (`observe`), the reference model fills it from
//! the file model (`sem::predict`); the oracle is equality.

#[derive(Clone, PartialEq, Eq, Hash)]
pub enum ImgData {
    Full(Vec<u8>),
    Digest(u64, u64),
}

/// RGBA image, normalised so that fully transparent pixels are (0,0,0,0): equality is
/// the repository's own image comparison ("equal, or both alpha 0").
#[derive(Clone, PartialEq, Eq, Hash)]
pub struct Img {
    pub w: u32,
    pub h: u32,
    pub data: ImgData,
}

pub const FULL_IMG_LIMIT: usize = 16 * 1024;

pub fn digest(px: &[u8]) -> (u64, u64) {
    // two independent multiplicative hashes over 32-bit pixels
    let mut a: u64 = 0x9E37_79B9_7F4A_7C15;
    let mut b: u64 = 0xC2B2_AE3D_27D4_EB4F;
    for c in px.chunks_exact(4) {
        let v = u32::from_le_bytes([c[0], c[1], c[2], c[3]]) as u64;
        a = (a ^ v).wrapping_mul(0x0000_0100_0000_01B3);
        a ^= a >> 29;
        b = (b.rotate_left(23) ^ v.wrapping_mul(0x9FB2_1C65_1E98_DF25)).wrapping_mul(0xD6E8_FEB8_6659_FD93);
    }
    (a, b ^ px.len() as u64)
}

impl Img {
    pub fn from_rgba(w: u32, h: u32, mut raw: Vec<u8>) -> Img {
        for c in raw.chunks_exact_mut(4) {
            if c[3] == 0 {
                c[0] = 0;
                c[1] = 0;
                c[2] = 0;
            }
        }
        if raw.len() / 4 <= FULL_IMG_LIMIT {
            Img { w, h, data: ImgData::Full(raw) }
        } else {
            let (a, b) = digest(&raw);
            Img { w, h, data: ImgData::Digest(a, b) }
        }
    }
    pub fn from_pixels(w: u32, h: u32, px: &[[u8; 4]]) -> Img {
        let mut raw = Vec::with_capacity(px.len() * 4);
        for p in px {
            raw.extend_from_slice(p);
        }
        Img::from_rgba(w, h, raw)
    }
    pub fn pixel(&self, x: u32, y: u32) -> Option<[u8; 4]> {
        match &self.data {
            ImgData::Full(d) => {
                let i = ((y * self.w + x) * 4) as usize;
                d.get(i..i + 4).map(|s| [s[0], s[1], s[2], s[3]])
            }
            _ => None,
        }
    }
}

impl std::fmt::Debug for Img {
    fn fmt(&self, f: &mut std::fmt::Formatter<'_>) -> std::fmt::Result {
        match &self.data {
            ImgData::Full(d) => {
                write!(f, "Img {}x{} [", self.w, self.h)?;
                for (i, c) in d.chunks_exact(4).enumerate() {
                    if i >= 64 {
                        write!(f, " …")?;
                        break;
                    }
                    write!(f, " {:02x}{:02x}{:02x}{:02x}", c[0], c[1], c[2], c[3])?;
                }
                write!(f, " ]")
            }
            ImgData::Digest(a, b) => write!(f, "Img {}x{} digest {:016x}{:016x}", self.w, self.h, a, b),
        }
    }
}

#[derive(Clone, Debug, PartialEq, Eq, Hash)]
pub struct UdObs {
    pub text: Option<String>,
    pub color: Option<[u8; 4]>,
}

#[derive(Clone, Copy, Debug, PartialEq, Eq, Hash)]
pub enum PixFmtObs {
    Rgba,
    Gray,
    Indexed(u8),
}

#[derive(Clone, Copy, Debug, PartialEq, Eq, Hash)]
pub enum LayerKindObs {
    Image,
    Group,
    Tilemap(u32),
}

#[derive(Clone, Debug, PartialEq, Eq, Hash)]
pub struct LayerObs {
    pub id: u32,
    pub flags: u32,
    pub name: String,
    pub blend: u8,
    pub opacity: u8,
    pub kind: LayerKindObs,
    pub is_tilemap: bool,
    pub parent: Option<u32>,
    pub visible: bool,
    pub ud: Option<UdObs>,
}

#[derive(Clone, Debug, PartialEq, Eq, Hash)]
pub struct CelObs {
    pub frame: u32,
    pub layer: u32,
    pub empty: bool,
    pub top_left: (i32, i32),
    pub is_tilemap: bool,
    pub ud: Option<UdObs>,
    pub image: Option<Img>,
}

#[derive(Clone, Debug, PartialEq, Eq, Hash)]
pub struct FrameObs {
    pub id: u32,
    pub duration: u32,
    pub image: Option<Img>,
}

#[derive(Clone, Debug, PartialEq, Eq, Hash)]
pub struct TilemapObs {
    pub layer: u32,
    pub frame: u32,
    pub width: u32,
    pub height: u32,
    pub tile_size: (u32, u32),
    pub tileset_id: u32,
    pub tile_offsets: (i32, i32),
    pub pixel_offsets: (i32, i32),
    pub image: Option<Img>,
    /// tile ids at the probe coordinates, row-major over (ys × xs)
    pub tiles: Vec<u32>,
}

#[derive(Clone, Debug, PartialEq, Eq, Hash)]
pub struct TilesetObs {
    pub id: u32,
    pub empty_zero: bool,
    pub count: u32,
    pub tile_size: (u16, u16),
    pub base_index: i16,
    pub name: String,
    pub ext: Option<(u32, u32)>,
    pub image: Option<Img>,
    pub tile_images: Vec<Img>,
}

#[derive(Clone, Debug, PartialEq, Eq, Hash)]
pub struct TagObs {
    pub name: String,
    pub from: u32,
    pub to: u32,
    pub dir: u8,
    pub repeat: Option<u32>,
    pub ud: Option<UdObs>,
}

#[derive(Clone, Debug, PartialEq, Eq, Hash)]
pub struct KeyObs {
    pub frame: u32,
    pub origin: (i32, i32),
    pub size: (u32, u32),
    pub slice9: Option<(i32, i32, u32, u32)>,
    pub pivot: Option<(i32, i32)>,
}

#[derive(Clone, Debug, PartialEq, Eq, Hash)]
pub struct SliceObs {
    pub name: String,
    pub keys: Vec<KeyObs>,
    pub ud: Option<UdObs>,
}

#[derive(Clone, Debug, PartialEq, Eq, Hash)]
pub struct PalEntryObs {
    pub id: u32,
    pub rgba: [u8; 4],
    pub name: Option<String>,
}

#[derive(Clone, Debug, PartialEq, Eq, Hash)]
pub struct PalObs {
    pub num_colors: u32,
    /// result of `color(i)` for each probed index
    pub probes: Vec<(u32, Option<PalEntryObs>)>,
}

/// What to observe.  The same value is given to `observe` and `predict`.
#[derive(Clone, Debug)]
pub struct Want {
    pub frame_images: bool,
    pub cel_images: bool,
    pub tilemaps: bool,
    pub tileset_images: bool,
    /// at most this many tile images per tileset
    pub max_tile_images: u32,
    /// skip any canvas-sized image when w*h exceeds this
    pub max_canvas_pixels: u64,
    pub pal_probes: Vec<u32>,
    pub name_probes: Vec<String>,
    pub id_probes: Vec<u32>,
    /// extra tile lookup coordinates beyond [0, size+2)
    pub tile_far: bool,
    pub debug_fmt: bool,
}

impl Want {
    pub fn all() -> Want {
        Want {
            frame_images: true,
            cel_images: true,
            tilemaps: true,
            tileset_images: true,
            max_tile_images: 64,
            max_canvas_pixels: 1 << 22,
            pal_probes: Vec::new(),
            name_probes: Vec::new(),
            id_probes: Vec::new(),
            tile_far: true,
            debug_fmt: false,
        }
    }
    pub fn structure_only() -> Want {
        Want { frame_images: false, cel_images: false, tilemaps: false, tileset_images: false, ..Want::all() }
    }
}

pub fn tile_probe_axis(logical: u32, far: bool) -> Vec<u32> {
    let mut v: Vec<u32> = (0..logical.saturating_add(2).min(40)).collect();
    if far {
        v.extend_from_slice(&[0x7FFF_FFFF, 0x8000_0000, 0xFFFF_FFFF]);
    }
    v
}

#[derive(Clone, Debug, PartialEq, Eq, Hash, Default)]
pub struct Obs {
    pub width: usize,
    pub height: usize,
    pub size: (usize, usize),
    pub num_frames: u32,
    pub num_layers: u32,
    pub fmt: Option<PixFmtObs>,
    pub bytes_per_pixel: usize,
    pub is_indexed: bool,
    pub transparent: Option<u8>,
    pub palette: Option<PalObs>,
    pub layers: Vec<LayerObs>,
    /// ids produced by the `layers()` iterator
    pub layers_iter: Vec<u32>,
    pub frames: Vec<FrameObs>,
    /// cels via `cel(f,l)`, frame-major
    pub cels: Vec<CelObs>,
    /// true iff the three routes agreed on every attribute and image (C19)
    pub routes_agree: bool,
    pub route_mismatch: Option<String>,
    pub tilemaps: Vec<Option<TilemapObs>>,
    pub tilesets: Vec<TilesetObs>,
    pub tilesets_len: u32,
    pub tilesets_is_empty: bool,
    pub tileset_get: Vec<(u32, bool)>,
    pub ext_files: Vec<(u32, String)>,
    pub ext_get: Vec<(u32, Option<String>)>,
    pub tags: Vec<TagObs>,
    pub num_tags: u32,
    pub get_tag: Vec<(u32, Option<String>)>,
    pub tag_by_name: Vec<(String, Option<usize>)>,
    pub layer_by_name: Vec<(String, Option<u32>)>,
    pub slices: Vec<SliceObs>,
    pub sprite_ud: Option<UdObs>,
    /// panics caught during the walk: (accessor label, message)
    pub panics: Vec<(String, String)>,
}

/// First differing line of the two pretty-printed observations, with a little context.
pub fn first_diff(a: &Obs, b: &Obs) -> String {
    let sa = format!("{:#?}", a);
    let sb = format!("{:#?}", b);
    let la: Vec<&str> = sa.lines().collect();
    let lb: Vec<&str> = sb.lines().collect();
    let n = la.len().min(lb.len());
    for i in 0..n {
        if la[i] != lb[i] {
            // find the nearest enclosing field name (a less indented line above)
            let indent = la[i].len() - la[i].trim_start().len();
            let mut ctx = Vec::new();
            let mut cur = indent;
            for j in (0..i).rev() {
                let ind = la[j].len() - la[j].trim_start().len();
                if ind < cur {
                    ctx.push(la[j].trim().to_string());
                    cur = ind;
                    if ctx.len() >= 3 || ind == 0 {
                        break;
                    }
                }
            }
            ctx.reverse();
            return format!("at {} : expected `{}` observed `{}`", ctx.join(" > "), la[i].trim(), lb[i].trim());
        }
    }
    if la.len() != lb.len() {
        return format!("length differs: expected {} lines, observed {} lines; first extra: `{}`", la.len(), lb.len(), if la.len() > n { la[n] } else { lb[n] }.trim());
    }
    "no textual difference (PartialEq disagreed)".into()
}
