pub mod ase;
pub mod ase_parse;
pub mod blend;
pub mod explore;
pub mod gen;
pub mod obs;
pub mod sem;
