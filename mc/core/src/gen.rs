//! Builders for well-formed files: chunk helpers, pixel patterns, and the base sprites
//! (D1, b1..b4) that the per-property families deviate from.

use crate::ase::*;
use crate::sem::Fmt;

pub fn hdr(w: u16, h: u16, fmt: &Fmt) -> Header {
    let mut hd = Header::new(w, h, fmt.depth());
    if let Fmt::Indexed(t) = fmt {
        hd.transparent = *t;
        // the header's (redundant, deprecated) colour count deliberately disagrees with every palette the
        // generators write: nothing may depend on it
        hd.ncolors = 250;
    }
    hd
}

pub fn file(w: u16, h: u16, fmt: &Fmt, durations: &[u16]) -> File {
    File { header: hdr(w, h, fmt), frames: durations.iter().map(|d| Frame::new(*d)).collect(), tail: vec![] }
}

/// pixel alphas cycle through semi-transparent values and the boundary values 255, 254, 1
pub const ALPHAS: [u8; 11] = [171, 255, 96, 254, 200, 128, 127, 1, 245, 129, 64];

/// Distinct, semi-transparent, channel-unequal pixels; `salt` separates cels.
/// For indexed formats the indices cycle through `index_range`.
pub fn pixels(fmt: &Fmt, w: usize, h: usize, salt: u32, index_range: (u8, u8)) -> Vec<u8> {
    let n = w * h;
    let mut out = Vec::with_capacity(n * fmt.bpp());
    for i in 0..n as u32 {
        let k = i.wrapping_mul(37).wrapping_add(salt.wrapping_mul(101));
        match fmt {
            Fmt::Rgba => {
                let r = (40 + k * 7) as u8;
                let g = (90 + k * 13) as u8;
                let b = (200u32.wrapping_sub(k * 11)) as u8;
                let a = ALPHAS[(i as usize + salt as usize) % ALPHAS.len()];
                out.extend_from_slice(&[r, g, b, a]);
            }
            Fmt::Gray => {
                out.extend_from_slice(&[(30 + k * 17) as u8, ALPHAS[(i as usize + salt as usize) % ALPHAS.len()]]);
            }
            Fmt::Indexed(_) => {
                let span = (index_range.1 as u32 - index_range.0 as u32) + 1;
                out.push((index_range.0 as u32 + (k % span)) as u8);
            }
        }
    }
    out
}

/// Fully opaque variant (alpha 255) for cases where transparency would hide order.
pub fn opaque_pixels(fmt: &Fmt, w: usize, h: usize, salt: u32, index_range: (u8, u8)) -> Vec<u8> {
    let mut p = pixels(fmt, w, h, salt, index_range);
    match fmt {
        Fmt::Rgba => p.chunks_exact_mut(4).for_each(|c| c[3] = 255),
        Fmt::Gray => p.chunks_exact_mut(2).for_each(|c| c[1] = 255),
        _ => {}
    }
    p
}

pub fn raw_cel(layer: u16, x: i16, y: i16, op: u8, w: u16, h: u16, data: Vec<u8>) -> Body {
    Body::Cel(Cel::new(layer, x, y, op, CelBody::Raw { w, h, data }))
}
pub fn zcel(layer: u16, x: i16, y: i16, op: u8, w: u16, h: u16, data: Vec<u8>, level: u32) -> Body {
    Body::Cel(Cel::new(layer, x, y, op, CelBody::Compressed { w, h, data, z: Zlib::Level(level) }))
}
pub fn link_cel(layer: u16, x: i16, y: i16, op: u8, frame: u16) -> Body {
    Body::Cel(Cel::new(layer, x, y, op, CelBody::Linked { frame }))
}
pub fn tm_cel(layer: u16, x: i16, y: i16, op: u8, w: u16, h: u16, tiles: Vec<u32>) -> Body {
    Body::Cel(Cel::new(
        layer,
        x,
        y,
        op,
        CelBody::Tilemap { w, h, bits: 32, mask_id: 0x1fff_ffff, mask_xflip: 0x8000_0000, mask_yflip: 0x4000_0000, mask_rot: 0x2000_0000, reserved: [0; 10], tiles, tile_bytes_override: None, z: Zlib::Level(6) },
    ))
}
pub fn tileset(id: u32, n: u32, tw: u16, th: u16, pixels: Vec<u8>, name: &str) -> Tileset {
    Tileset { id, flags: 2 | 4, ntiles: n, tw, th, base_index: 1, reserved: [0; 14], name: Str::new(name), ext_file: 0, ext_tileset: 0, pixels, compressed_len: None, z: Zlib::Level(6) }
}
/// Tile pixels in which tile 0 has pixels of its own as well (nothing in the format forbids it; a tile
/// placed in a map is drawn by its pixels, whatever its id).  Only for maps that cover the canvas: the
/// properties call tile 0 "the empty tile" for positions outside the stored area.
pub fn tile_pixels_full(fmt: &Fmt, n: u32, tw: u16, th: u16, salt: u32, index_range: (u8, u8)) -> Vec<u8> {
    let mut out = Vec::new();
    for t in 0..n {
        out.extend(pixels(fmt, tw as usize, th as usize, salt + t * 7, index_range));
    }
    out
}

/// Tile pixels for a tileset: tile 0 fully transparent, others distinct.
pub fn tile_pixels(fmt: &Fmt, n: u32, tw: u16, th: u16, salt: u32, index_range: (u8, u8)) -> Vec<u8> {
    let per = tw as usize * th as usize;
    let mut out = Vec::new();
    for t in 0..n {
        if t == 0 {
            match fmt {
                Fmt::Indexed(tr) => out.extend(std::iter::repeat(*tr).take(per)),
                _ => out.extend(std::iter::repeat(0u8).take(per * fmt.bpp())),
            }
        } else {
            out.extend(pixels(fmt, tw as usize, th as usize, salt + t * 7, index_range));
        }
    }
    out
}
pub fn new_palette(first: u32, entries: Vec<PalEntry>) -> Body {
    Body::Palette(Palette { size: None, first, last: None, reserved: [0; 8], entries })
}
pub fn pal_entry(rgba: [u8; 4], name: Option<&str>) -> PalEntry {
    PalEntry { flags: if name.is_some() { 1 } else { 0 }, rgba, name: Str::new(name.unwrap_or("")) }
}
/// n entries with distinct RGB and varied alpha
pub fn pal_entries(n: usize, salt: u32) -> Vec<PalEntry> {
    (0..n as u32)
        .map(|i| {
            let k = i.wrapping_mul(53).wrapping_add(salt * 17);
            pal_entry([(10 + k * 3) as u8, (60 + k * 5) as u8, (120 + k * 7) as u8, if i % 3 == 0 { 255 } else { (100 + k) as u8 }], None)
        })
        .collect()
}
pub fn old_palette(packets: Vec<(u8, Vec<[u8; 3]>)>) -> OldPalette {
    OldPalette { npackets: None, packets: packets.into_iter().map(|(skip, colors)| OldPacket { skip, count: (colors.len() % 256) as u8, colors }).collect() }
}
pub fn tags(v: Vec<Tag>) -> Body {
    Body::Tags(Tags { count: None, reserved: [0; 8], tags: v })
}
pub fn slice(name: &str, flags: u32, keys: Vec<SliceKey>) -> Body {
    Body::Slice(Slice { nkeys: None, flags, reserved: 0, name: Str::new(name), keys })
}
pub fn key(frame: u32, x: i32, y: i32, w: u32, h: u32) -> SliceKey {
    SliceKey { frame, x, y, w, h, center: (0, 0, 0, 0), pivot: (0, 0) }
}
pub fn ext_files(v: Vec<(u32, &str)>) -> Body {
    Body::ExternalFiles(ExternalFiles { count: None, reserved: [0; 8], entries: v.into_iter().enumerate().map(|(i, (id, n))| ExtFile { id, ty: [2u8, 3, 0, 1][i % 4], reserved: [0; 7], name: Str::new(n) }).collect() })
}
pub fn srgb_profile() -> Body {
    Body::ColorProfile(ColorProfile { ty: 1, flags: 0, gamma: 0, reserved: [0; 8], icc: None })
}
pub fn none_profile() -> Body {
    Body::ColorProfile(ColorProfile { ty: 0, flags: 0, gamma: 0, reserved: [0; 8], icc: None })
}
pub fn cel_extra() -> Body {
    Body::CelExtra(CelExtra { flags: 1, x: 0x0001_8000, y: 0x0002_4000, w: 0x0003_0000, h: 0x0004_0000, reserved: [0; 16] })
}
pub fn mask() -> Body {
    Body::Mask(Mask { x: 1, y: 2, w: 9, h: 2, reserved: [0; 8], name: Str::new("mask"), bitmap: vec![0xAA, 0x80, 0x55, 0x00] })
}
/// the ignorable chunks of C07/C10, indexed 1..=5 (0 = none)
pub fn ignorable(k: usize) -> Option<Body> {
    match k {
        0 => None,
        1 => Some(cel_extra()),
        2 => Some(mask()),
        3 => Some(Body::Path),
        4 => Some(none_profile()),
        5 => Some(srgb_profile()),
        _ => panic!("ignorable kind"),
    }
}
pub const N_IGNORABLE: usize = 6;

/// D1: the C01 default sprite.  Every scalar of every entity kind is pairwise distinct.
pub fn d1(fmt: &Fmt) -> File {
    let mut f = file(13, 7, fmt, &[111, 222, 333]);
    let ir = (2u8, 6u8);
    {
        let fr = &mut f.frames[0];
        // ids chosen to collide when truncated to 8 or 16 bits (5 vs 0x10005, 3 vs 0x10003)
        fr.push(ext_files(vec![(5, "ext-five.aseprite"), (0x1_0005, "ext-nine.aseprite")]));
        fr.push(srgb_profile());
        let mut ents = pal_entries(5, 1);
        ents[1] = pal_entry([11, 22, 33, 44], Some("named"));
        ents[4] = pal_entry([211, 222, 233, 255], Some(""));
        fr.push(new_palette(2, ents));
        let mut ts1 = tileset(3, 3, 2, 3, tile_pixels(fmt, 3, 2, 3, 5, ir), "tiles-a");
        ts1.base_index = -7;
        fr.push(Body::Tileset(ts1));
        let mut ts2 = tileset(0x1_0003, 2, 4, 1, tile_pixels(fmt, 2, 4, 1, 9, ir), "tiles-b");
        ts2.flags = 1 | 2 | 4;
        ts2.ext_file = 0x1_0005;
        ts2.ext_tileset = 77;
        ts2.base_index = 12;
        fr.push(Body::Tileset(ts2));
        let mut g = Layer::group("group");
        g.flags = 0x21 | 2;
        g.opacity = 201;
        fr.push(Body::Layer(g));
        let mut a = Layer::image("child-a");
        a.level = 1;
        a.flags = 0x01 | 0x10;
        a.blend = 1;
        a.opacity = 202;
        fr.push(Body::Layer(a));
        let mut b = Layer::image("child-b");
        b.level = 1;
        b.flags = 0x03 | 0x40;
        b.blend = 16;
        b.opacity = 203;
        fr.push(Body::Layer(b));
        let mut t = Layer::tilemap("map", 3);
        t.flags = 0x03 | 0x04;
        t.blend = 2;
        t.opacity = 204;
        fr.push(Body::Layer(t));
        fr.push(tags(vec![
            Tag { repeat: 3, ..Tag::new("walk", 0, 1, 0) },
            Tag { repeat: 0, ..Tag::new("idle", 1, 2, 1) },
            Tag { repeat: 65535, ..Tag::new("walk", 2, 2, 2) },
        ]));
        let mut k1 = key(0, -3, 4, 5, 6);
        k1.center = (1, -2, 3, 4);
        k1.pivot = (-5, 6);
        let mut k2 = key(1, 7, -8, 9, 10);
        k2.center = (11, 12, 13, 14);
        k2.pivot = (15, -16);
        let mut k3 = key(2, 17, 18, 19, 20);
        k3.center = (-21, 22, 23, 24);
        k3.pivot = (25, 26);
        fr.push(slice("nine", 3, vec![k1, k2, k3]));
        fr.push(slice("plain", 0, vec![key(0, 1, 2, 3, 4)]));
        fr.push(raw_cel(1, 1, 2, 250, 3, 2, pixels(fmt, 3, 2, 1, ir)));
        fr.push(zcel(2, -1, 0, 251, 2, 2, pixels(fmt, 2, 2, 2, ir), 6));
        fr.push(tm_cel(3, 2, 3, 252, 2, 1, vec![1, 2]));
    }
    f.frames[1].push(link_cel(1, 0, 0, 253, 0));
    f.frames[1].push(zcel(2, 5, 1, 254, 1, 3, pixels(fmt, 1, 3, 3, ir), 1));
    f.frames[2].push(raw_cel(2, 0, 0, 255, 13, 7, pixels(fmt, 13, 7, 4, ir)));
    f
}

/// b1: RGBA, everything the format offers on a small canvas.
pub fn b1() -> File {
    let fmt = Fmt::Rgba;
    let mut f = file(4, 3, &fmt, &[100, 50]);
    let ir = (0, 0);
    {
        let fr = &mut f.frames[0];
        fr.push(ext_files(vec![(1, "pal.gpl")]));
        fr.push(srgb_profile());
        fr.push(new_palette(0, pal_entries(3, 2)));
        fr.push(Body::OldPalette04(old_palette(vec![(0, vec![[1, 2, 3], [4, 5, 6], [7, 8, 9]])])));
        fr.push(Body::UserData(UserData::text("sprite-ud")));
        fr.push(Body::Layer(Layer::group("G")));
        fr.push(Body::UserData(UserData::color([1, 2, 3, 4])));
        let mut c1 = Layer::image("c1");
        c1.level = 1;
        c1.opacity = 200;
        fr.push(Body::Layer(c1));
        fr.push(Body::UserData(UserData::both("layer-c1", [9, 8, 7, 6])));
        let mut c2 = Layer::image("c2");
        c2.level = 1;
        c2.blend = 1;
        fr.push(Body::Layer(c2));
        fr.push(tags(vec![Tag::new("t0", 0, 0, 0), Tag { repeat: 2, ..Tag::new("t1", 0, 1, 2) }]));
        fr.push(Body::UserData(UserData::text("tag0")));
        fr.push(Body::UserData(UserData::color([5, 5, 5, 5])));
        let mut k = key(0, 1, 1, 2, 2);
        k.center = (0, 0, 1, 1);
        k.pivot = (1, 0);
        fr.push(slice("s", 3, vec![k]));
        fr.push(Body::UserData(UserData::text("slice-ud")));
        fr.push(raw_cel(1, 0, 0, 255, 4, 3, pixels(&fmt, 4, 3, 1, ir)));
        fr.push(Body::UserData(UserData::text("cel-ud")));
        fr.push(cel_extra());
        fr.push(zcel(2, 1, -1, 128, 2, 3, pixels(&fmt, 2, 3, 2, ir), 6));
    }
    f.frames[1].push(link_cel(1, 0, 0, 255, 0));
    f.frames[1].push(zcel(2, -1, 1, 255, 3, 2, pixels(&fmt, 3, 2, 3, ir), 9));
    f
}

/// b2: indexed, new + both legacy palettes, background layer, transparent index 3.
pub fn b2() -> File {
    let fmt = Fmt::Indexed(3);
    let mut f = file(3, 3, &fmt, &[80]);
    let ir = (0, 5);
    let fr = &mut f.frames[0];
    fr.push(new_palette(0, pal_entries(6, 3)));
    fr.push(Body::OldPalette04(old_palette(vec![(0, (0..6).map(|i| [i * 9, i * 7, i * 5]).collect())])));
    fr.push(Body::OldPalette11(old_palette(vec![(0, (0..6).map(|i| [i * 3, i * 2, i]).collect())])));
    let mut bg = Layer::image("Background");
    bg.flags = 1 | 2 | 4 | 8;
    fr.push(Body::Layer(bg));
    fr.push(Body::Layer(Layer::image("fg")));
    fr.push(raw_cel(0, 0, 0, 255, 3, 3, pixels(&fmt, 3, 3, 1, ir)));
    fr.push(zcel(1, 1, 0, 200, 2, 2, pixels(&fmt, 2, 2, 2, ir), 6));
    f
}

/// b3: grayscale with tileset, tilemap layer and tilemap cel.
pub fn b3() -> File {
    let fmt = Fmt::Gray;
    let mut f = file(5, 4, &fmt, &[40, 60]);
    let ir = (0, 0);
    {
        let fr = &mut f.frames[0];
        fr.push(Body::Tileset(tileset(0, 3, 2, 2, tile_pixels(&fmt, 3, 2, 2, 4, ir), "ts")));
        fr.push(Body::Layer(Layer::image("img")));
        fr.push(Body::Layer(Layer::tilemap("map", 0)));
        fr.push(raw_cel(0, 0, 0, 255, 5, 4, pixels(&fmt, 5, 4, 1, ir)));
        fr.push(tm_cel(1, 2, 0, 220, 2, 2, vec![1, 2, 0, 1]));
    }
    f.frames[1].push(tm_cel(1, 0, 2, 255, 1, 1, vec![2]));
    f
}

/// b4: RGBA tileset with an external reference as well as embedded pixels.
pub fn b4() -> File {
    let fmt = Fmt::Rgba;
    let mut f = file(4, 4, &fmt, &[100]);
    let ir = (0, 0);
    let fr = &mut f.frames[0];
    fr.push(ext_files(vec![(7, "tiles.aseprite")]));
    let mut ts = tileset(2, 2, 2, 2, tile_pixels(&fmt, 2, 2, 2, 6, ir), "ext-ts");
    ts.flags = 1 | 2 | 4;
    ts.ext_file = 7;
    ts.ext_tileset = 1;
    fr.push(Body::Tileset(ts));
    fr.push(Body::Layer(Layer::tilemap("map", 2)));
    fr.push(tm_cel(0, 0, 0, 255, 2, 2, vec![1, 0, 0, 1]));
    f
}

pub fn bases() -> Vec<(&'static str, File)> {
    vec![("b1", b1()), ("b2", b2()), ("b3", b3()), ("b4", b4())]
}

// ---- accessors into a File (n-th chunk of a kind, across all frames in file order) ----

macro_rules! nth_mut {
    ($fname:ident, $variant:ident, $ty:ty) => {
        pub fn $fname(f: &mut File, n: usize) -> &mut $ty {
            let mut k = 0;
            for fr in f.frames.iter_mut() {
                for ch in fr.chunks.iter_mut() {
                    if let Body::$variant(x) = &mut ch.body {
                        if k == n {
                            return x;
                        }
                        k += 1;
                    }
                }
            }
            panic!(concat!(stringify!($fname), ": no such chunk"));
        }
    };
}
nth_mut!(layer_mut, Layer, Layer);
nth_mut!(cel_mut, Cel, Cel);
nth_mut!(tags_mut, Tags, Tags);
nth_mut!(slice_mut, Slice, Slice);
nth_mut!(palette_mut, Palette, Palette);
nth_mut!(extfiles_mut, ExternalFiles, ExternalFiles);
nth_mut!(tileset_mut, Tileset, Tileset);
nth_mut!(userdata_mut, UserData, UserData);
nth_mut!(profile_mut, ColorProfile, ColorProfile);

pub fn count_kind(f: &File, kind: &str) -> usize {
    f.frames.iter().flat_map(|fr| fr.chunks.iter()).filter(|c| c.body.kind_name() == kind).count()
}

/// positions (frame, chunk) of all chunks of a kind
pub fn positions(f: &File, kind: &str) -> Vec<(usize, usize)> {
    let mut v = Vec::new();
    for (fi, fr) in f.frames.iter().enumerate() {
        for (ci, c) in fr.chunks.iter().enumerate() {
            if c.body.kind_name() == kind {
                v.push((fi, ci));
            }
        }
    }
    v
}

/// Deterministic pseudo-random bytes (LCG): content that deflate cannot shrink much.
pub fn noise(n: usize, seed: u32) -> Vec<u8> {
    let mut s = seed.wrapping_mul(747796405).wrapping_add(2891336453);
    (0..n)
        .map(|_| {
            s = s.wrapping_mul(1664525).wrapping_add(1013904223);
            (s >> 24) as u8
        })
        .collect()
}

/// "big": every payload kind larger than 64 KiB (raw cel, compressed cel whose stream is
/// itself > 64 KiB, tileset, tilemap), so that code paths that treat large chunks
/// differently (buffer growth, block-wise reads) are exercised.  RGBA 160 x 128, 2 frames.
pub fn big() -> File {
    let fmt = Fmt::Rgba;
    let (w, h) = (160u16, 128u16);
    let mut f = file(w, h, &fmt, &[30, 40]);
    let n = w as usize * h as usize * 4;
    let fr = &mut f.frames[0];
    fr.push(Body::Tileset(tileset(1, 70, 16, 16, {
        let mut p = vec![0u8; 16 * 16 * 4];
        p.extend(noise(69 * 16 * 16 * 4, 3));
        p
    }, "big-tiles")));
    fr.push(Body::Layer(Layer::image("raw")));
    let mut l1 = Layer::image("packed");
    l1.blend = 2;
    l1.opacity = 200;
    fr.push(Body::Layer(l1));
    fr.push(Body::Layer(Layer::tilemap("map", 1)));
    fr.push(raw_cel(0, 0, 0, 255, w, h, noise(n, 1)));
    fr.push(Body::UserData(UserData::text("raw-cel")));
    fr.push(zcel(1, -3, 2, 190, w, h, noise(n, 2), 6));
    fr.push(tm_cel(2, 0, 0, 255, 10, 8, (0..80u32).map(|i| i % 70).collect()));
    // the last frame is itself larger than 64 KiB and holds several chunks
    f.frames[1].push(link_cel(0, 0, 0, 255, 0));
    f.frames[1].push(raw_cel(1, 5, -4, 255, w, h, noise(n, 5)));
    f.frames[1].push(Body::UserData(UserData::text("second-frame-cel")));
    f.frames[1].push(tm_cel(2, 16, 16, 128, 150, 120, (0..18000u32).map(|i| (i * 7) % 70).collect()));
    f
}

/// Many frames / many layers with cels at indices beyond 255, so that a coordinate
/// truncated to 8 bits (or two coordinates packed too tightly) aliases distinct cels.
/// `pattern` selects which cells exist.
pub fn wide(nframes: usize, nlayers: usize, pattern: u32) -> File {
    let fmt = Fmt::Rgba;
    let d: Vec<u16> = (0..nframes).map(|i| 10 + (i % 500) as u16).collect();
    let mut f = file(3, 2, &fmt, &d);
    for l in 0..nlayers {
        let mut ly = Layer::image(&format!("L{}", l));
        ly.opacity = 255 - (l % 7) as u8;
        f.frames[0].push(Body::Layer(ly));
    }
    for fr in 0..nframes {
        for l in 0..nlayers {
            let present = match pattern {
                0 => (fr + l) % 3 == 0,
                1 => (fr * 7 + l * 3) % 5 == 1,
                2 => l % 256 == fr % 256 || (fr + l) % 97 == 0,
                _ => (fr ^ l) & 3 == 0,
            };
            if present {
                let uid = (fr * nlayers + l) as u32;
                f.frames[fr].push(raw_cel(l as u16, (uid % 3) as i16 - 1, (uid % 2) as i16, 255 - (uid % 5) as u8, 2, 1, pixels(&fmt, 2, 1, uid, (0, 0))));
                if uid % 4 == 0 {
                    f.frames[fr].push(Body::UserData(UserData::text(&format!("c{}", uid))));
                }
            }
        }
    }
    f
}
