//! Reference semantics: what a well-formed Aseprite file *means*, written from the
//! property statements and the file specification (not from the library's code), and
//! the prediction of every API observation from that meaning.

use crate::ase::{self, Body, CelBody, File};
use crate::blend;
use crate::obs::*;
use std::collections::BTreeMap;

#[derive(Clone, Debug, PartialEq)]
pub enum Fmt {
    Rgba,
    Gray,
    Indexed(u8),
}
impl Fmt {
    pub fn bpp(&self) -> usize {
        match self {
            Fmt::Rgba => 4,
            Fmt::Gray => 2,
            Fmt::Indexed(_) => 1,
        }
    }
    pub fn depth(&self) -> u16 {
        (self.bpp() * 8) as u16
    }
}

#[derive(Clone, Debug, PartialEq)]
pub enum LayerKind {
    Image,
    Group,
    Tilemap(u32),
}

#[derive(Clone, Debug)]
pub struct LayerSem {
    pub flags: u16,
    pub kind: LayerKind,
    pub level: u16,
    pub blend: u16,
    pub opacity: u8,
    pub name: String,
    pub ud: Option<UdObs>,
}

#[derive(Clone, Debug)]
pub enum Content {
    Image { w: u16, h: u16, data: Vec<u8> },
    Linked(u16),
    Tilemap { w: u16, h: u16, ids: Vec<u32> },
}

#[derive(Clone, Debug)]
pub struct CelSem {
    pub x: i16,
    pub y: i16,
    pub opacity: u8,
    pub content: Content,
    pub ud: Option<UdObs>,
}

#[derive(Clone, Debug)]
pub struct TilesetSem {
    pub id: u32,
    pub flags: u32,
    pub count: u32,
    pub tw: u16,
    pub th: u16,
    pub base_index: i16,
    pub name: String,
    pub ext: Option<(u32, u32)>,
    pub pixels: Vec<u8>,
}

#[derive(Clone, Debug)]
pub struct SpriteSem {
    pub w: u16,
    pub h: u16,
    pub fmt: Fmt,
    pub durations: Vec<u16>,
    pub layers: Vec<LayerSem>,
    pub cels: BTreeMap<(u16, u16), CelSem>,
    pub palette: Option<BTreeMap<u32, PalEntryObs>>,
    pub tags: Vec<TagObs>,
    pub slices: Vec<SliceObs>,
    pub ext_files: BTreeMap<u32, String>,
    pub tilesets: BTreeMap<u32, TilesetSem>,
    pub sprite_ud: Option<UdObs>,
}

#[derive(Clone, Copy, Debug, PartialEq)]
enum Ctx {
    None,
    Layer(usize),
    Cel(u16, u16),
    Slice(usize),
    Sprite,
    Tag(usize),
}

fn s(x: &ase::Str) -> Result<String, String> {
    x.as_string().ok_or_else(|| "name is not UTF-8".to_string())
}

fn ud_of(u: &ase::UserData) -> Result<UdObs, String> {
    Ok(UdObs { text: if u.flags & 1 != 0 { Some(s(&u.text)?) } else { None }, color: if u.flags & 2 != 0 { Some(u.color) } else { None } })
}

pub fn scale6(v: u8) -> u8 {
    // 0 -> 0, 63 -> 255, evenly in between: v * 255 / 63 rounded = (v << 2) | (v >> 4)
    (v << 2) | (v >> 4)
}

/// The meaning of a well-formed file.  `Err` = the file is outside what this reference
/// model defines (a generator bug if it happens for a "well-formed" family).
pub fn interpret(f: &File) -> Result<SpriteSem, String> {
    let h = &f.header;
    let fmt = match h.depth {
        32 => Fmt::Rgba,
        16 => Fmt::Gray,
        8 => Fmt::Indexed(h.transparent),
        d => return Err(format!("depth {}", d)),
    };
    let mut sem = SpriteSem {
        w: h.width,
        h: h.height,
        fmt: fmt.clone(),
        durations: f.frames.iter().map(|fr| fr.duration).collect(),
        layers: vec![],
        cels: BTreeMap::new(),
        palette: None,
        tags: vec![],
        slices: vec![],
        ext_files: BTreeMap::new(),
        tilesets: BTreeMap::new(),
        sprite_ud: None,
    };
    let mut ctx = Ctx::None;
    let mut new_palette_seen = false;
    let mut legacy_seen = false;
    let mut ntags = 0usize;
    for (fi, fr) in f.frames.iter().enumerate() {
        for ch in &fr.chunks {
            match &ch.body {
                Body::Layer(l) => {
                    let kind = match l.ty {
                        0 => LayerKind::Image,
                        1 => LayerKind::Group,
                        2 => LayerKind::Tilemap(l.tileset),
                        t => return Err(format!("layer type {}", t)),
                    };
                    if l.blend > 18 {
                        return Err("blend mode".into());
                    }
                    sem.layers.push(LayerSem { flags: l.flags, kind, level: l.level, blend: l.blend, opacity: l.opacity, name: s(&l.name)?, ud: None });
                    ctx = Ctx::Layer(sem.layers.len() - 1);
                }
                Body::Cel(c) => {
                    let content = match &c.body {
                        CelBody::Raw { w, h, data } | CelBody::Compressed { w, h, data, .. } => {
                            if data.len() != *w as usize * *h as usize * fmt.bpp() {
                                return Err("cel payload size".into());
                            }
                            Content::Image { w: *w, h: *h, data: data.clone() }
                        }
                        CelBody::Linked { frame } => Content::Linked(*frame),
                        CelBody::Tilemap { w, h, bits, mask_id, tiles, tile_bytes_override, .. } => {
                            if *bits != 32 || tile_bytes_override.is_some() || tiles.len() != *w as usize * *h as usize {
                                return Err("tilemap cel shape".into());
                            }
                            Content::Tilemap { w: *w, h: *h, ids: tiles.iter().map(|t| t & mask_id).collect() }
                        }
                        CelBody::Other { .. } => return Err("cel type".into()),
                    };
                    let key = (fi as u16, c.layer);
                    if sem.cels.contains_key(&key) {
                        return Err("duplicate cel".into());
                    }
                    sem.cels.insert(key, CelSem { x: c.x, y: c.y, opacity: c.opacity, content, ud: None });
                    ctx = Ctx::Cel(fi as u16, c.layer);
                }
                Body::Tags(t) => {
                    if fi != 0 {
                        return Err("tags chunk outside the first frame".into());
                    }
                    sem.tags = Vec::new();
                    for g in &t.tags {
                        if g.dir > 2 {
                            return Err("animation direction".into());
                        }
                        sem.tags.push(TagObs { name: s(&g.name)?, from: g.from as u32, to: g.to as u32, dir: g.dir, repeat: if g.repeat == 0 { None } else { Some(g.repeat as u32) }, ud: None });
                    }
                    ntags = sem.tags.len();
                    ctx = Ctx::Tag(0);
                }
                Body::Slice(sl) => {
                    let mut keys = Vec::new();
                    for k in &sl.keys {
                        keys.push(KeyObs {
                            frame: k.frame,
                            origin: (k.x, k.y),
                            size: (k.w, k.h),
                            slice9: if sl.flags & 1 != 0 { Some(k.center) } else { None },
                            pivot: if sl.flags & 2 != 0 { Some(k.pivot) } else { None },
                        });
                    }
                    sem.slices.push(SliceObs { name: s(&sl.name)?, keys, ud: None });
                    ctx = Ctx::Slice(sem.slices.len() - 1);
                }
                Body::OldPalette04(p) | Body::OldPalette11(p) => {
                    let is11 = matches!(ch.body, Body::OldPalette11(_));
                    ctx = Ctx::Sprite;
                    if !new_palette_seen && !legacy_seen {
                        let mut m = BTreeMap::new();
                        let mut at: u32 = 0;
                        for k in &p.packets {
                            at += k.skip as u32;
                            let n = if k.count == 0 { 256 } else { k.count as u32 };
                            if k.colors.len() as u32 != n {
                                return Err("legacy packet colour count".into());
                            }
                            for (i, c) in k.colors.iter().enumerate() {
                                let id = at + i as u32;
                                let rgb = if is11 {
                                    if c.iter().any(|v| *v > 63) {
                                        return Err("6-bit component out of range".into());
                                    }
                                    [scale6(c[0]), scale6(c[1]), scale6(c[2])]
                                } else {
                                    *c
                                };
                                m.insert(id, PalEntryObs { id, rgba: [rgb[0], rgb[1], rgb[2], 255], name: None });
                            }
                            // "cumulative packet offsets": the next packet's skip is relative
                            // to the running sum of the skip bytes (Aseprite's reader adds the
                            // skip only).
                        }
                        sem.palette = Some(m);
                    }
                    legacy_seen = true;
                }
                Body::Palette(p) => {
                    let mut m = BTreeMap::new();
                    for (i, e) in p.entries.iter().enumerate() {
                        let id = p.first.checked_add(i as u32).ok_or("palette index overflow")?;
                        m.insert(id, PalEntryObs { id, rgba: e.rgba, name: if e.flags & 1 != 0 { Some(s(&e.name)?) } else { None } });
                    }
                    if let Some(last) = p.last {
                        if last as u64 + 1 != p.first as u64 + p.entries.len() as u64 {
                            return Err("palette last".into());
                        }
                    }
                    if new_palette_seen {
                        return Err("two new-format palette chunks (meaning not defined by this model)".into());
                    }
                    sem.palette = Some(m);
                    new_palette_seen = true;
                }
                Body::UserData(u) => {
                    let ud = ud_of(u)?;
                    match ctx {
                        Ctx::None => return Err("dangling user data".into()),
                        Ctx::Layer(i) => {
                            if sem.layers[i].ud.is_some() {
                                return Err("second record for a layer".into());
                            }
                            sem.layers[i].ud = Some(ud)
                        }
                        Ctx::Cel(fr, l) => {
                            let c = sem.cels.get_mut(&(fr, l)).unwrap();
                            if c.ud.is_some() {
                                return Err("second record for a cel".into());
                            }
                            c.ud = Some(ud)
                        }
                        Ctx::Slice(i) => {
                            if sem.slices[i].ud.is_some() {
                                return Err("second record for a slice".into());
                            }
                            sem.slices[i].ud = Some(ud)
                        }
                        Ctx::Sprite => {
                            if sem.sprite_ud.is_some() {
                                return Err("second record for the sprite".into());
                            }
                            sem.sprite_ud = Some(ud)
                        }
                        Ctx::Tag(i) => {
                            if i >= ntags {
                                return Err("more records than tags".into());
                            }
                            sem.tags[i].ud = Some(ud);
                            ctx = Ctx::Tag(i + 1);
                        }
                    }
                }
                Body::ExternalFiles(x) => {
                    for e in &x.entries {
                        if sem.ext_files.contains_key(&e.id) {
                            return Err("duplicate external file id".into());
                        }
                        sem.ext_files.insert(e.id, s(&e.name)?);
                    }
                }
                Body::Tileset(t) => {
                    if t.flags & 2 == 0 {
                        return Err("tileset without embedded pixels".into());
                    }
                    if sem.tilesets.contains_key(&t.id) {
                        return Err("duplicate tileset id".into());
                    }
                    if t.pixels.len() as u64 != t.ntiles as u64 * t.tw as u64 * t.th as u64 * fmt.bpp() as u64 {
                        return Err("tileset payload size".into());
                    }
                    sem.tilesets.insert(
                        t.id,
                        TilesetSem { id: t.id, flags: t.flags, count: t.ntiles, tw: t.tw, th: t.th, base_index: t.base_index, name: s(&t.name)?, ext: if t.flags & 1 != 0 { Some((t.ext_file, t.ext_tileset)) } else { None }, pixels: t.pixels.clone() },
                    );
                }
                Body::ColorProfile(p) => {
                    if p.ty > 1 || p.flags & 1 != 0 {
                        return Err("unsupported colour profile".into());
                    }
                }
                Body::CelExtra(_) | Body::Mask(_) | Body::Path => {}
                Body::Raw { .. } => return Err("raw chunk".into()),
            }
        }
    }
    // structural well-formedness
    for (i, l) in sem.layers.iter().enumerate() {
        let maxl = if i == 0 { 0 } else { sem.layers[i - 1].level + 1 };
        if l.level > maxl {
            return Err("levels do not form a forest".into());
        }
        if let LayerKind::Tilemap(ts) = l.kind {
            if !sem.tilesets.contains_key(&ts) {
                return Err("tilemap layer without tileset".into());
            }
        }
    }
    for ((fr, l), c) in &sem.cels {
        if *l as usize >= sem.layers.len() {
            return Err("cel layer out of range".into());
        }
        match &c.content {
            Content::Linked(t) => match sem.cels.get(&(*t, *l)) {
                Some(CelSem { content: Content::Linked(_), .. }) | None => return Err(format!("link target of ({},{})", fr, l)),
                _ => {}
            },
            Content::Tilemap { ids, .. } => {
                let LayerKind::Tilemap(ts) = sem.layers[*l as usize].kind else { return Err("tilemap cel outside tilemap layer".into()) };
                let t = &sem.tilesets[&ts];
                if t.tw == 0 || t.th == 0 || ids.iter().any(|i| *i >= t.count) {
                    return Err("tile id out of range".into());
                }
            }
            Content::Image { data, .. } => {
                if let Fmt::Indexed(_) = sem.fmt {
                    let Some(p) = &sem.palette else { return Err("indexed pixels without palette".into()) };
                    if data.iter().any(|i| !p.contains_key(&(*i as u32))) {
                        return Err("pixel index not in palette".into());
                    }
                }
            }
        }
    }
    if let Fmt::Indexed(_) = sem.fmt {
        for t in sem.tilesets.values() {
            let Some(p) = &sem.palette else {
                if t.pixels.is_empty() {
                    continue;
                }
                return Err("indexed tileset without palette".into());
            };
            if t.pixels.iter().any(|i| !p.contains_key(&(*i as u32))) {
                return Err("tileset index not in palette".into());
            }
        }
    }
    Ok(sem)
}

impl SpriteSem {
    pub fn parent(&self, i: usize) -> Option<usize> {
        let lv = self.layers[i].level;
        if lv == 0 {
            return None;
        }
        (0..i).rev().find(|j| self.layers[*j].level < lv)
    }
    pub fn visible(&self, i: usize) -> bool {
        let mut cur = Some(i);
        while let Some(k) = cur {
            if self.layers[k].flags & 1 == 0 {
                return false;
            }
            cur = self.parent(k);
        }
        true
    }

    /// stored pixel bytes -> RGBA, per the pixel format
    pub fn to_rgba(&self, data: &[u8], background_layer: bool) -> Vec<[u8; 4]> {
        match &self.fmt {
            Fmt::Rgba => data.chunks_exact(4).map(|c| [c[0], c[1], c[2], c[3]]).collect(),
            Fmt::Gray => data.chunks_exact(2).map(|c| [c[0], c[0], c[0], c[1]]).collect(),
            Fmt::Indexed(t) => {
                let p = self.palette.as_ref().expect("palette");
                data.iter()
                    .map(|i| {
                        let e = &p[&(*i as u32)];
                        let a = if *i == *t && !background_layer { 0 } else { e.rgba[3] };
                        [e.rgba[0], e.rgba[1], e.rgba[2], a]
                    })
                    .collect()
            }
        }
    }

    /// The cel that provides the content of (f,l), following a link once.
    pub fn resolve(&self, f: u16, l: u16) -> Option<&CelSem> {
        let c = self.cels.get(&(f, l))?;
        match c.content {
            Content::Linked(t) => self.cels.get(&(t, l)),
            _ => Some(c),
        }
    }

    /// Source pixels of a (resolved) cel as (canvas x, canvas y, rgba) restricted to the canvas.
    pub fn cel_sources(&self, l: u16, c: &CelSem) -> Vec<(u32, u32, [u8; 4])> {
        let (cw, chh) = (self.w as i64, self.h as i64);
        let mut out = Vec::new();
        let layer = &self.layers[l as usize];
        match &c.content {
            Content::Image { w, h, data } => {
                let px = self.to_rgba(data, layer.flags & 8 != 0);
                // iterate only the visible window
                let x0 = c.x as i64;
                let y0 = c.y as i64;
                let ys = y0.max(0)..(y0 + *h as i64).min(chh);
                for y in ys {
                    let xs = x0.max(0)..(x0 + *w as i64).min(cw);
                    for x in xs {
                        let idx = (y - y0) as usize * *w as usize + (x - x0) as usize;
                        out.push((x as u32, y as u32, px[idx]));
                    }
                }
            }
            Content::Tilemap { w, h, ids } => {
                let LayerKind::Tilemap(ts) = layer.kind else { panic!("tilemap cel outside tilemap layer") };
                let t = &self.tilesets[&ts];
                let tpx = self.to_rgba(&t.pixels, false);
                let (tw, th) = (t.tw as i64, t.th as i64);
                for ty in 0..*h as i64 {
                    for tx in 0..*w as i64 {
                        let id = ids[(ty * *w as i64 + tx) as usize] as usize;
                        let base = id * (tw * th) as usize;
                        for py in 0..th {
                            let y = c.y as i64 + ty * th + py;
                            if y < 0 || y >= chh {
                                continue;
                            }
                            for px in 0..tw {
                                let x = c.x as i64 + tx * tw + px;
                                if x < 0 || x >= cw {
                                    continue;
                                }
                                out.push((x as u32, y as u32, tpx[base + (py * tw + px) as usize]));
                            }
                        }
                    }
                }
            }
            Content::Linked(_) => panic!("unresolved link"),
        }
        out
    }

    /// C06: the cel image by the statement (no blend function involved).
    pub fn cel_image(&self, f: u16, l: u16) -> Vec<[u8; 4]> {
        let mut canvas = vec![[0u8; 4]; self.w as usize * self.h as usize];
        if let Some(c) = self.resolve(f, l) {
            let op = blend::mul_un8(self.layers[l as usize].opacity, c.opacity);
            for (x, y, p) in self.cel_sources(l, c) {
                let a = blend::mul_un8(p[3], op);
                canvas[y as usize * self.w as usize + x as usize] = [p[0], p[1], p[2], a];
            }
        }
        canvas
    }

    /// C02: bottom-to-top composition with the reference blend functions.
    /// Returns (pixels, any reference evaluation was C++-undefined).
    pub fn frame_image(&self, f: u16) -> (Vec<[u8; 4]>, bool) {
        let mut canvas = vec![[0u8; 4]; self.w as usize * self.h as usize];
        let mut ub = false;
        for l in 0..self.layers.len() {
            if !self.visible(l) {
                continue;
            }
            if l > u16::MAX as usize {
                // the cel chunk's layer index is a 16-bit field: such a layer cannot hold a cel
                continue;
            }
            let Some(c) = self.resolve(f, l as u16) else { continue };
            let layer = &self.layers[l];
            let op = blend::mul_un8(layer.opacity, c.opacity);
            for (x, y, p) in self.cel_sources(l as u16, c) {
                let i = y as usize * self.w as usize + x as usize;
                let (r, fl) = blend::blend(layer.blend as usize, canvas[i], p, op);
                if fl & blend::FLAG_UB != 0 {
                    ub = true;
                }
                canvas[i] = r;
            }
        }
        (canvas, ub)
    }

    pub fn tile_pixels(&self, t: &TilesetSem, i: u32) -> Vec<[u8; 4]> {
        let n = t.tw as usize * t.th as usize * self.fmt.bpp();
        self.to_rgba(&t.pixels[i as usize * n..(i as usize + 1) * n], false)
    }
}

pub struct Prediction {
    pub obs: Obs,
    /// a reference blend evaluation hit C++-undefined behaviour: frame images not comparable
    pub ub: bool,
}

pub fn default_probes(sem: &SpriteSem, want: &mut Want) {
    let mut pal: Vec<u32> = vec![0, 1, 2, 254, 255, 256, 257, u32::MAX];
    if let Some(p) = &sem.palette {
        for id in p.keys() {
            pal.push(*id);
            pal.push(id.wrapping_add(1));
            pal.push(id.wrapping_sub(1));
        }
    }
    pal.sort();
    pal.dedup();
    if pal.len() > 1200 {
        // keep both ends and the boundary probes
        let keep: Vec<u32> = pal.iter().copied().enumerate().filter(|(i, _)| *i < 600 || *i >= pal.len() - 600).map(|(_, v)| v).collect();
        pal = keep;
    }
    want.pal_probes = pal;
    let mut names: Vec<String> = vec!["".into(), "no such name".into()];
    for l in &sem.layers {
        names.push(l.name.clone());
    }
    for t in &sem.tags {
        names.push(t.name.clone());
    }
    names.sort();
    names.dedup();
    if names.len() > 64 {
        names.truncate(64);
    }
    want.name_probes = names;
    let mut ids: Vec<u32> = vec![0, 1, 2, u32::MAX];
    for k in sem.tilesets.keys() {
        ids.push(*k);
        ids.push(k.wrapping_add(1));
    }
    for k in sem.ext_files.keys() {
        ids.push(*k);
        ids.push(k.wrapping_add(1));
    }
    let n = sem.tags.len() as u32;
    ids.extend_from_slice(&[n, n.wrapping_add(1), n.wrapping_sub(1)]);
    ids.sort();
    ids.dedup();
    if ids.len() > 300 {
        ids.truncate(300);
    }
    want.id_probes = ids;
}

fn img(sem: &SpriteSem, px: &[[u8; 4]]) -> Img {
    Img::from_pixels(sem.w as u32, sem.h as u32, px)
}

pub fn predict(sem: &SpriteSem, want: &Want) -> Prediction {
    let mut o = Obs::default();
    let mut ub = false;
    o.width = sem.w as usize;
    o.height = sem.h as usize;
    o.size = (o.width, o.height);
    o.num_frames = sem.durations.len() as u32;
    o.num_layers = sem.layers.len() as u32;
    o.fmt = Some(match sem.fmt {
        Fmt::Rgba => PixFmtObs::Rgba,
        Fmt::Gray => PixFmtObs::Gray,
        Fmt::Indexed(t) => PixFmtObs::Indexed(t),
    });
    o.bytes_per_pixel = sem.fmt.bpp();
    o.is_indexed = matches!(sem.fmt, Fmt::Indexed(_));
    o.transparent = if let Fmt::Indexed(t) = sem.fmt { Some(t) } else { None };
    o.palette = sem.palette.as_ref().map(|p| PalObs { num_colors: p.len() as u32, probes: want.pal_probes.iter().map(|i| (*i, p.get(i).cloned())).collect() });
    let canvas_ok = (sem.w as u64) * (sem.h as u64) <= want.max_canvas_pixels;
    for (i, l) in sem.layers.iter().enumerate() {
        o.layers.push(LayerObs {
            id: i as u32,
            flags: (l.flags & 0x7f) as u32,
            name: l.name.clone(),
            blend: l.blend as u8,
            opacity: l.opacity,
            kind: match l.kind {
                LayerKind::Image => LayerKindObs::Image,
                LayerKind::Group => LayerKindObs::Group,
                LayerKind::Tilemap(t) => LayerKindObs::Tilemap(t),
            },
            is_tilemap: matches!(l.kind, LayerKind::Tilemap(_)),
            parent: sem.parent(i).map(|p| p as u32),
            visible: sem.visible(i),
            ud: l.ud.clone(),
        });
        o.layers_iter.push(i as u32);
    }
    for (f, d) in sem.durations.iter().enumerate() {
        let image = if want.frame_images && canvas_ok {
            let (px, u) = sem.frame_image(f as u16);
            ub |= u;
            Some(img(sem, &px))
        } else {
            None
        };
        o.frames.push(FrameObs { id: f as u32, duration: *d as u32, image });
    }
    let blank = vec![[0u8; 4]; sem.w as usize * sem.h as usize];
    for f in 0..sem.durations.len() as u16 {
        for l in 0..sem.layers.len() as u32 {
            // layers beyond 65535 cannot hold cels (16-bit layer index in the cel chunk)
            let c = if l <= u16::MAX as u32 { sem.cels.get(&(f, l as u16)) } else { None };
            o.cels.push(CelObs {
                frame: f as u32,
                layer: l,
                empty: c.is_none(),
                top_left: c.map_or((0, 0), |c| (c.x as i32, c.y as i32)),
                is_tilemap: matches!(c, Some(CelSem { content: Content::Tilemap { .. }, .. })),
                ud: c.and_then(|c| c.ud.clone()),
                image: if want.cel_images && canvas_ok { Some(img(sem, &if l <= u16::MAX as u32 { sem.cel_image(f, l as u16) } else { blank.clone() })) } else { None },
            });
        }
    }
    o.routes_agree = true;
    if want.tilemaps {
        for l32 in 0..sem.layers.len() as u32 {
            let l = l32 as u16;
            for f in 0..sem.durations.len() as u16 {
                let tm = (|| {
                    if l32 > u16::MAX as u32 {
                        return None;
                    }
                    let LayerKind::Tilemap(ts) = sem.layers[l as usize].kind else { return None };
                    let t = sem.tilesets.get(&ts)?;
                    let c = sem.cels.get(&(f, l))?;
                    let Content::Tilemap { w, h, ids } = &c.content else { return None };
                    let (tw, th) = (t.tw as u32, t.th as u32);
                    let lw = (sem.w as u32 + tw - 1) / tw;
                    let lh = (sem.h as u32 + th - 1) / th;
                    let ox = c.x as i32 / tw as i32;
                    let oy = c.y as i32 / th as i32;
                    let xs = tile_probe_axis(lw, want.tile_far);
                    let ys = tile_probe_axis(lh, want.tile_far);
                    let mut tiles = Vec::with_capacity(xs.len() * ys.len());
                    for y in &ys {
                        for x in &xs {
                            let sx = *x as i64 - ox as i64;
                            let sy = *y as i64 - oy as i64;
                            let id = if sx < 0 || sy < 0 || sx >= *w as i64 || sy >= *h as i64 { 0 } else { ids[(sy * *w as i64 + sx) as usize] };
                            tiles.push(id);
                        }
                    }
                    Some(TilemapObs {
                        layer: l as u32,
                        frame: f as u32,
                        width: lw,
                        height: lh,
                        tile_size: (tw, th),
                        tileset_id: ts,
                        tile_offsets: (ox, oy),
                        pixel_offsets: (c.x as i32, c.y as i32),
                        image: if want.cel_images && canvas_ok { Some(img(sem, &sem.cel_image(f, l))) } else { None },
                        tiles,
                    })
                })();
                o.tilemaps.push(tm);
            }
        }
    }
    for t in sem.tilesets.values() {
        let mut ti = Vec::new();
        let mut image = None;
        if want.tileset_images {
            let all = sem.to_rgba(&t.pixels, false);
            image = Some(Img::from_pixels(t.tw as u32, t.th as u32 * t.count, &all));
            for i in 0..t.count.min(want.max_tile_images) {
                ti.push(Img::from_pixels(t.tw as u32, t.th as u32, &sem.tile_pixels(t, i)));
            }
        }
        o.tilesets.push(TilesetObs { id: t.id, empty_zero: t.flags & 4 != 0, count: t.count, tile_size: (t.tw, t.th), base_index: t.base_index, name: t.name.clone(), ext: t.ext, image, tile_images: ti });
    }
    o.tilesets_len = sem.tilesets.len() as u32;
    o.tilesets_is_empty = sem.tilesets.is_empty();
    o.tileset_get = want.id_probes.iter().map(|i| (*i, sem.tilesets.contains_key(i))).collect();
    o.ext_files = sem.ext_files.iter().map(|(k, v)| (*k, v.clone())).collect();
    o.ext_get = want.id_probes.iter().map(|i| (*i, sem.ext_files.get(i).cloned())).collect();
    o.tags = sem.tags.clone();
    o.num_tags = sem.tags.len() as u32;
    o.get_tag = want.id_probes.iter().map(|i| (*i, sem.tags.get(*i as usize).map(|t| t.name.clone()))).collect();
    o.tag_by_name = want.name_probes.iter().map(|n| (n.clone(), sem.tags.iter().position(|t| &t.name == n))).collect();
    o.layer_by_name = want.name_probes.iter().map(|n| (n.clone(), sem.layers.iter().position(|l| &l.name == n).map(|i| i as u32))).collect();
    o.slices = sem.slices.clone();
    o.sprite_ud = sem.sprite_ud.clone();
    Prediction { obs: o, ub }
}
