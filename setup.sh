#!/bin/bash
# Builds the framework offline from files on disk (three profiles of the worker, the
# harness in the `checked` profile).  Run once after a fresh restore.
set -e
export CARGO_NET_OFFLINE=true
cd "$(dirname "$0")/mc"
cargo build --offline --profile checked
cargo build --offline --profile unopt -p mc-walk
cargo build --offline --profile plain -p mc-walk
echo "setup ok"
