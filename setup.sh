#!/bin/bash
# Builds the framework offline from files on disk (three profiles of the worker, the
# harness in the `checked` profile).  Run once after a fresh restore.
set -e
export CARGO_NET_OFFLINE=true
cd "$(dirname "$0")/mc"
cargo build --offline --profile checked
cargo build --offline --profile unopt -p mc-walk
cargo build --offline --profile plain -p mc-walk
# the shuttle-instrumented copy of the library for C16's schedules-sync family (non-fatal here:
# ./check C16 rebuilds it from /repo's working tree on every run and reports if it cannot)
root="$(cd .. && pwd)"
mkdir -p "$root/target/sx"
if python3 "$root/tools/gen_sx.py" /repo "$root/target/sx/asefile" >"$root/target/sx/gen.json" && (cd "$root/mc-sx" && CARGO_TARGET_DIR="$root/target" cargo build --offline --profile checked); then
  echo ok >"$root/target/sx/status"
else
  echo "warning: mc-sx did not build" >&2
fi
echo "setup ok"
